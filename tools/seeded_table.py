#!/usr/bin/env python3
"""Write seeded/README.md: one row per seeded change with what it needs and which oracle classes of the quick check caught it."""
import json, glob, os, re
ROOT = os.path.dirname(os.path.dirname(os.path.abspath(__file__)))
rows = []
for d in sorted(glob.glob(os.path.join(ROOT, "seeded", "C*"))):
    m = json.load(open(os.path.join(d, "meta.json")))
    notes = m.get("needs_to_manifest", "")
    first = ""
    for line in notes.splitlines():
        line = line.strip(" #*-")
        if len(line) > 25:
            first = line; break
    cls = sorted({c.split("|")[1] if "|" in c else c for c in m.get("violation_classes", [])})
    rows.append((m["id"], m["property"], "yes" if m.get("confirmed") else "NO", {True: "caught", False: "MISSED", None: "n/a"}[m.get("detected_by_quick_check")], ", ".join(cls), first[:160].replace("|", "/")))
out = ["# Seeded breaking changes", "",
       "Produced by independent sub-agents that were given only a property's text and a scratch worktree (rounds: A/B, C/D, E/F; later rounds were also told which ideas were already taken).",
       "`confirmed` = tools/confirm_seed.py reproduced: demo passes on the unchanged tree, baseline suite passes with the patch, demo fails with the patch.",
       "`quick check` = tools/run_seeded.py: the property's quick check run against a scratch copy with the change applied (isolated build).", "",
       "| id | property | confirmed | quick check | oracles that fired | what the change is (first line of its notes) |", "|---|---|---|---|---|---|"]
for r in rows:
    out.append("| %s | %s | %s | %s | %s | %s |" % r)
caught = sum(1 for r in rows if r[3] == "caught")
out += ["", "%d changes, %d caught by the quick tier." % (len(rows), caught)]
open(os.path.join(ROOT, "seeded", "README.md"), "w").write("\n".join(out) + "\n")
print("%d changes, %d caught" % (len(rows), caught))
