#!/usr/bin/env python3
"""Confirm a seeded breaking change independently: in a scratch worktree of /repo HEAD
   (a) the demonstration passes on the unchanged tree, (b) with the patch the 61-test baseline still passes,
   (c) with the patch the demonstration fails. Then store it under /verif/seeded/<id><X>/ with meta.json.
   usage: confirm_seed.py <Cxx> <A|B> <property-needs text file or ->"""
import sys, os, subprocess, json, shutil, time
pid, x = sys.argv[1], sys.argv[2]
root = os.environ.get("SEED_ROOT", "/tmp/seed")
import re as _re
_m = _re.search(r"seed(\d+)$", root)
_round = int(_m.group(1)) if _m else 1
name = chr(ord("A") + 2 * (_round - 1) + (0 if x == "A" else 1))      # later rounds are stored as <id>C/D, <id>E/F, <id>G/H ...
src = "%s/%s/out/%s" % (root, pid, x)
wt = "/tmp/confirm_%s%s" % (pid, name)
dst = "/verif/seeded/%s%s" % (pid, name)
def sh(cmd, cwd=None, timeout=900):
    try:
        p = subprocess.run(cmd, shell=True, cwd=cwd, stdout=subprocess.PIPE, stderr=subprocess.STDOUT, text=True, errors="replace", timeout=timeout)
        return p.returncode, p.stdout
    except subprocess.TimeoutExpired as e:
        return 124, "timeout"
meta = {"id": pid + name, "property": pid, "source": "independent sub-agent given only the property text and a scratch worktree", "confirmed_at": time.strftime("%Y-%m-%dT%H:%M:%S")}
subprocess.run("git -C /repo worktree remove --force %s 2>/dev/null; rm -rf %s" % (wt, wt), shell=True)
base = sys.argv[3] if len(sys.argv) > 3 else "HEAD"
rc, out = sh("git -C /repo worktree add --detach %s %s" % (wt, base))
try:
    head = subprocess.check_output("git -C %s rev-parse --short HEAD" % wt, shell=True, text=True).strip()
    meta["base_commit"] = head
    rc0, out0 = sh("bash %s/run_demo.sh %s" % (src, wt), cwd=src, timeout=600)
    meta["demo_on_unchanged_tree_exit"] = rc0
    rc, out = sh("git apply %s/patch.diff" % src, cwd=wt)
    meta["patch_applies"] = rc == 0
    if rc != 0:
        meta["note"] = out[-500:]
    else:
        rc, out = sh("cmake -G Ninja -B _build -DCMAKE_BUILD_TYPE=RelWithDebInfo -DCPPUTEST_SPLIT_TESTS=ON -DCMAKE_CXX_FLAGS=-Wno-error -DCMAKE_C_FLAGS=-Wno-error >/dev/null && cmake --build _build 2>&1 | tail -3", cwd=wt, timeout=1200)
        meta["builds_with_patch"] = rc == 0
        rc, out = sh("ctest --test-dir _build -j8 --timeout 900 2>&1 | tail -4", cwd=wt, timeout=1800)
        meta["test_suite_with_patch"] = out.strip().splitlines()[-3:] if out else []
        meta["test_suite_passes_with_patch"] = rc == 0 and "100% tests passed" in out
        shutil.rmtree(os.path.join(wt, "_build"), ignore_errors=True)
        rc1, out1 = sh("bash %s/run_demo.sh %s" % (src, wt), cwd=src, timeout=600)
        meta["demo_with_patch_exit"] = rc1
    ok = meta.get("patch_applies") and meta.get("test_suite_passes_with_patch") and meta.get("demo_on_unchanged_tree_exit") == 0 and meta.get("demo_with_patch_exit", 0) != 0
    meta["confirmed"] = bool(ok)
    meta["what_i_ran"] = "tools/confirm_seed.py: scratch worktree of /repo HEAD; run_demo.sh on the unchanged tree; git apply patch.diff; cmake (baseline options) + ctest; run_demo.sh on the patched tree"
    os.makedirs(dst, exist_ok=True)
    for f in ("patch.diff", "demo.cpp", "run_demo.sh", "notes.md"):
        if os.path.exists(os.path.join(src, f)):
            shutil.copy(os.path.join(src, f), dst)
    try:
        notes = open(os.path.join(src, "notes.md")).read()
        meta["needs_to_manifest"] = notes[:1500]
    except Exception:
        pass
    json.dump(meta, open(os.path.join(dst, "meta.json"), "w"), indent=1)
    print(pid + name, "confirmed" if ok else "NOT CONFIRMED", {k: meta.get(k) for k in ("demo_on_unchanged_tree_exit", "patch_applies", "test_suite_passes_with_patch", "demo_with_patch_exit")})
finally:
    subprocess.run("git -C /repo worktree remove --force %s 2>/dev/null; rm -rf %s; git -C /repo worktree prune" % (wt, wt), shell=True)
