#!/usr/bin/env python3
"""Run the quick check of each seeded change's property against a scratch copy of /repo with the change applied,
   in isolation (own worktree, own build directory, own output directory), and record the outcome in seeded/<id>/meta.json.
   usage: run_seeded.py [id ...]"""
import sys, os, json, subprocess, shutil, glob
ROOT = os.path.dirname(os.path.dirname(os.path.abspath(__file__)))
ids = sys.argv[1:] or sorted(os.path.basename(d) for d in glob.glob(os.path.join(ROOT, "seeded", "C*")))
base = "/tmp/seedrun_%d" % os.getpid()
wt = base + "/repo"
subprocess.run("git -C /repo worktree remove --force %s 2>/dev/null; rm -rf %s; mkdir -p %s" % (wt, base, base), shell=True)
subprocess.run("git -C /repo worktree add --detach %s HEAD >/dev/null 2>&1" % wt, shell=True)
# the checks run from a snapshot of /verif taken now, so that the machinery can be edited while a long round is running
SNAP = base + "/verif"
subprocess.run("rsync -a --exclude build --exclude work --exclude out --exclude replays --exclude .git --exclude benign --exclude seeded %s/ %s/" % (ROOT, SNAP), shell=True)
env = dict(os.environ, VERIF_REPO=wt, VERIF_BUILD=base + "/build", VERIF_OUT=base + "/out", VERIF_WORKERS=os.environ.get("VERIF_WORKERS", "8"))
summary = {}
try:
    for i in ids:
        d = os.path.join(ROOT, "seeded", i)
        patch = os.path.join(d, "patch_ported_to_current_head.diff")
        if not os.path.exists(patch):
            patch = os.path.join(d, "patch.diff")
        subprocess.run("git reset -q --hard HEAD", shell=True, cwd=wt)
        r = subprocess.run("git apply --3way %s" % patch, shell=True, cwd=wt, stdout=subprocess.PIPE, stderr=subprocess.STDOUT, text=True)
        meta = json.load(open(os.path.join(d, "meta.json")))
        prop = meta["property"]
        if r.returncode != 0:
            meta["detected_by_quick_check"] = None; meta["check_note"] = "patch does not apply to current HEAD: " + r.stdout[-200:]
        else:
            p = subprocess.run([os.path.join(SNAP, "verif.py"), "check", prop, "--tier", "quick"], env=env, cwd=SNAP, stdout=subprocess.PIPE, stderr=subprocess.STDOUT, text=True)
            classes = [l[len("violation class "):].split(":")[0] for l in p.stdout.splitlines() if l.startswith("violation class ")]
            meta["detected_by_quick_check"] = p.returncode == 1
            meta["check_exit"] = p.returncode
            meta["check_output_tail"] = [l[:300] for l in p.stdout.splitlines() if not l.startswith("batch ")][-8:]
            meta["violation_classes"] = sorted(set(classes))[:6]
            meta["checked_against_head"] = subprocess.check_output("git -C /repo rev-parse --short HEAD", shell=True, text=True).strip()
        json.dump(meta, open(os.path.join(d, "meta.json"), "w"), indent=1)
        summary[i] = meta.get("detected_by_quick_check")
        print(i, "CAUGHT" if meta.get("detected_by_quick_check") else "MISSED/other", meta.get("violation_classes", meta.get("check_note")), flush=True)
finally:
    subprocess.run("git -C /repo worktree remove --force %s 2>/dev/null; rm -rf %s; git -C /repo worktree prune" % (wt, base), shell=True)
print(json.dumps(summary))
