#!/usr/bin/env python3
"""Prepare a round of seeded-change work for sub-agents: one scratch worktree of /repo and one prompt file per claimed
property under /tmp/seed<N>/ (nothing from /verif is referenced in the prompts).

usage: seed_round.py <N> [props...]
The prompt is the round-3 text with the list of ideas that were already used extended by this file's EXTRA table.
"""
import os, re, subprocess, sys, json

VERIF = os.path.dirname(os.path.dirname(os.path.abspath(__file__)))
PROPS = ["C01", "C02", "C04", "C05", "C06", "C07", "C08", "C10", "C11", "C14", "C15", "C16", "C17", "C18", "C19", "C20"]

IDEAS = json.load(open(os.path.join(VERIF, "tools", "seed_ideas.json")))

TEMPLATE = open(os.path.join(VERIF, "tools", "seed_prompt.txt")).read()
BENIGN = open(os.path.join(VERIF, "tools", "seed_prompt_benign.txt")).read()


def main():
    n = sys.argv[1]
    benign = n.startswith("b")        # seed_round.py b1 ... prepares a round of property-preserving changes under /tmp/benign1
    props = sys.argv[2:] or PROPS
    root = ("/tmp/benign%s" % n[1:]) if benign else ("/tmp/seed%s" % n)
    os.makedirs(root + "/prompts", exist_ok=True)
    texts = {}
    for line in open(os.path.join(VERIF, "properties.jsonl")):
        d = json.loads(line)
        texts[d["id"]] = d
    for p in props:
        d = root + "/" + p
        os.makedirs(d + "/out", exist_ok=True)
        if not os.path.isdir(d + "/wt"):
            subprocess.check_call(["git", "-C", "/repo", "worktree", "add", "--detach", "-q", d + "/wt", "HEAD"])
        pr = texts[p]
        ideas = IDEAS.get(p, [])
        note = "; ".join("(%d) %s" % (i + 1, t) for i, t in enumerate(ideas))
        anchors = ", ".join(pr.get("anchors", {}).get("files", []))
        txt = (BENIGN if benign else TEMPLATE).replace("@ROOT@", d).replace("@ID@", p).replace("@TITLE@", pr.get("title", "")).replace("@STATEMENT@", pr.get("statement", "")) \
            .replace("@QUANT@", (pr.get("quantifier") or {}).get("text", "")) \
            .replace("@ANCHORS@", anchors).replace("@NIDEAS@", str(len(ideas))).replace("@IDEAS@", note)
        open(root + "/prompts/" + p + ".txt", "w").write(txt)
        print("prepared", d)


if __name__ == "__main__":
    main()
