#!/usr/bin/env python3
"""Property-preserving changes (sub-agents playing a maintainer): store each under /verif/benign/<id>/ and run the quick checks
   of every property that shares code with it against a scratch copy of /repo with the change applied. An alarm (exit 1) or a
   harness problem (exit 2) on such a change is a false alarm of the machinery unless the change turns out to break a property.
   usage: run_benign.py <round-root> [Cxx ...]     e.g. run_benign.py /tmp/benign1 C04 C05"""
import sys, os, json, subprocess, shutil, glob

ROOT = os.path.dirname(os.path.dirname(os.path.abspath(__file__)))
ENGINE_PROPS = {
    "runsim": ["C01", "C02", "C07", "C11", "C16", "C17", "C20"],
    "heapsim": ["C04", "C05", "C06", "C14", "C15"],
    "mocksim": ["C08", "C19"],
    "cachesim": ["C18"],
    "thrsim": ["C10"],
}
# which checks a change made for property X is run against: its own check, the checks on the same engine, and close relatives on other engines
RELATED = {
    "C01": ["C01", "C02", "C11", "C17", "C16", "C20", "C07"], "C02": ["C02", "C01", "C20", "C16"], "C04": ["C04", "C05", "C06", "C07", "C14", "C15", "C10"],
    "C05": ["C05", "C04", "C06", "C15", "C10", "C14"], "C06": ["C06", "C04", "C05", "C10", "C07"], "C07": ["C07", "C04", "C01", "C11", "C14"],
    "C08": ["C08", "C19"], "C10": ["C10", "C04", "C05", "C06"], "C11": ["C11", "C01", "C07"], "C14": ["C14", "C04", "C07", "C06"],
    "C15": ["C15", "C05", "C04"], "C16": ["C16", "C01", "C20"], "C17": ["C17", "C01"], "C18": ["C18", "C01"], "C19": ["C19", "C08"], "C20": ["C20", "C01", "C16"],
}

root = sys.argv[1]
props = sys.argv[2:] or sorted(os.path.basename(d) for d in glob.glob(os.path.join(root, "C*")))
base = "/tmp/benignrun_%d" % os.getpid()
wt = base + "/repo"
subprocess.run("rm -rf %s; mkdir -p %s; git -C /repo worktree add --detach %s HEAD >/dev/null 2>&1" % (base, base, wt), shell=True)
# the checks run from a snapshot of /verif taken now, so that the machinery can be edited while a long round is running
SNAP = base + "/verif"
subprocess.run("rsync -a --exclude build --exclude work --exclude out --exclude replays --exclude .git --exclude benign --exclude seeded %s/ %s/" % (ROOT, SNAP), shell=True)
env = dict(os.environ, VERIF_REPO=wt, VERIF_BUILD=base + "/build", VERIF_OUT=base + "/out", VERIF_WORKERS=os.environ.get("VERIF_WORKERS", "8"))
rnd = os.path.basename(root.rstrip("/"))
try:
    for p in props:
        for x in sorted(os.listdir(os.path.join(root, p, "out"))) if os.path.isdir(os.path.join(root, p, "out")) else []:
            src = os.path.join(root, p, "out", x)
            if not os.path.exists(os.path.join(src, "patch.diff")):
                continue
            ident = "%s_%s_%s" % (p, rnd, x)
            dst = os.path.join(ROOT, "benign", ident)
            os.makedirs(dst, exist_ok=True)
            for f in ("patch.diff", "notes.md"):
                if os.path.exists(os.path.join(src, f)):
                    shutil.copy(os.path.join(src, f), os.path.join(dst, f))
            subprocess.run("git reset -q --hard HEAD", shell=True, cwd=wt)
            r = subprocess.run("git apply --3way %s" % os.path.join(dst, "patch.diff"), shell=True, cwd=wt, stdout=subprocess.PIPE, stderr=subprocess.STDOUT, text=True)
            meta = {"id": ident, "made_for_property": p, "applies": r.returncode == 0, "checks": {}}
            if r.returncode == 0:
                for c in RELATED.get(p, [p]):
                    q = subprocess.run([os.path.join(SNAP, "verif.py"), "check", c, "--tier", "quick"], env=env, cwd=SNAP, stdout=subprocess.PIPE, stderr=subprocess.STDOUT, text=True)
                    tail = [l[:400] for l in q.stdout.splitlines() if not l.startswith("batch ") and not l.startswith("build ok")][-6:]
                    meta["checks"][c] = {"exit": q.returncode, "tail": tail if q.returncode != 0 else tail[-1:]}
                    print(ident, c, "exit", q.returncode, flush=True)
                    if q.returncode != 0:
                        for l in tail:
                            print("    " + l, flush=True)
            else:
                print(ident, "patch does not apply:", r.stdout[-200:], flush=True)
            meta["checked_against_head"] = subprocess.check_output("git -C /repo rev-parse --short HEAD", shell=True, text=True).strip()
            json.dump(meta, open(os.path.join(dst, "meta.json"), "w"), indent=1)
finally:
    subprocess.run("git -C /repo worktree remove --force %s 2>/dev/null; rm -rf %s; git -C /repo worktree prune" % (wt, base), shell=True)
