// thrsim - the thread-safe allocation mode under a deterministic scheduler (C10).
// Real pthreads, but exactly one is runnable at any instant: a thread hands the baton over at yield points, which are
//   (1) every instrumented load/store of MemoryLeakDetector.cpp, MemoryLeakWarningPlugin.cpp, TestMemoryAllocator.cpp and
//       SimpleMutex.cpp (compiled with -fsanitize=thread, linked against the __tsan_* callbacks defined here instead of the
//       TSan runtime), (2) the mutex seam, (3) the platform heap seam.
// The same callbacks feed a vector-clock happens-before race detector whose only synchronisation edges are the simulated
// mutex and thread start/join/hand-off.
#include "../core/seams.h"
#include "../core/driver.h"
#include "../core/leakreport.h"
#include "CppUTest/MemoryLeakDetector.h"
#include "CppUTest/MemoryLeakWarningPlugin.h"
#include "CppUTest/TestMemoryAllocator.h"
#include "CppUTest/TestRegistry.h"
#include "CppUTest/SimpleMutex.h"
#include "CppUTest/TestOutput.h"
#include "CppUTest/TestResult.h"
#include "CppUTest/JUnitTestOutput.h"
#include "CppUTest/MemoryLeakDetectorMallocMacros.h"
extern "C" void FAIL_TEXT_C_LOCATION(const char* text, const char* fileName, size_t lineNumber);
#undef new
#undef malloc
#undef free
#undef calloc
#undef realloc
#undef strdup
#undef strndup
#include <pthread.h>
#include <semaphore.h>
#include <malloc.h>
#include <sys/mman.h>
#include <algorithm>

namespace ts {
using namespace vf;

enum Kind { X_NONE = 0, X_ALLOC /* a slot, b form (0 new,1 new[],2 new nothrow,3 new[] nothrow,4 malloc), c size */, X_FREE /* a slot */, X_REALLOC /* a slot, c size */,
            X_SEND /* a slot, b target thread */, X_RECV, X_YIELD,
            X_USERLOCK /* the thread takes and releases a SimpleMutex of the program under test (not the detector's) */, X_MISUSE /* a kind: 0 overrun a guard byte then release, 1 release a foreign pointer, 2 release through the wrong family, 3-5 the same three through realloc, 6 the platform has no memory, 7 a plain failing check; b form; c size */, X_COUNT };
static const char* const kNames[X_COUNT] = { "none", "alloc", "free", "realloc", "send", "recv", "yield", "userlock", "misuse" };
static const char* kindName(int k) { return k >= 0 && k < X_COUNT ? kNames[k] : "none"; }
static int kindFromName(const char* s) { for (int i = 0; i < X_COUNT; i++) if (!strcmp(s, kNames[i])) return i; return X_NONE; }

enum { MAXT = 17, N_SLOTS = 16 };

// ------------------------------------------------------------------------------------------------ scheduler
struct Held { void* p; int form; size_t size; };
struct Thr {
    pthread_t th; sem_t sem; int id; bool started, finished, blocked; void* waitingFor;
    uint32_t vc[MAXT];
    Held slots[N_SLOTS]; Vec<Held> mailbox; uint32_t mailVc[MAXT];
    const Group* script;
};
struct SimMutexObj { int owner; uint32_t vc[MAXT]; uint64_t acquisitions, contended; };
struct Race { uintptr_t addr; int t1, t2; bool w1, w2; };

struct Sim {
    bool active; int n; Thr t[MAXT]; volatile int current; bool refusedGotBlock;
    Rng rng; unsigned preemptNum, preemptDen; bool biasLock; int afterLock;
    uint64_t steps, budget; bool noPreempt; uint64_t changePoints[4]; int nChangePoints;      // PCT-like: a handful of forced preemptions at seeded steps, none elsewhere
    Vec<int64_t> recorded;            // (step, to) pairs
    const Vec<int64_t>* replay; size_t replayPos;
    uint64_t switches; Hash order;
    // violations found while running
    bool deadlock, selfDeadlock, unlockByOther, budgetExceeded; Str deadlockDetail;
    Vec<Race> races; uint64_t accesses;
    uint64_t reports; Str firstReport;
    Sim() : active(false), n(0), current(-1), rng(1), preemptNum(1), preemptDen(8), biasLock(false), afterLock(0), steps(0), budget(0), noPreempt(false), replay(0), replayPos(0), switches(0),
            deadlock(false), selfDeadlock(false), unlockByOther(false), budgetExceeded(false), accesses(0), reports(0) {}
};
static Sim S;
static __thread int tlsId = -1;

static bool runnable(int i) { return S.t[i].started && !S.t[i].finished && !S.t[i].blocked; }
static void handoff(int me, int to) {
    if (to == me) return;
    S.switches++; S.order.u64((uint64_t)to); S.order.u64(S.steps);
    S.current = to;
    sem_post(&S.t[to].sem);
    while (sem_wait(&S.t[me].sem) != 0) {}
}
static int pickOther(int me, bool forced) {
    // replayed schedule first
    if (S.replay) {
        while (S.replayPos + 1 < S.replay->size() && (uint64_t)(*S.replay)[S.replayPos] < S.steps) S.replayPos += 2;
        if (S.replayPos + 1 < S.replay->size() && (uint64_t)(*S.replay)[S.replayPos] == S.steps) { int to = (int)(*S.replay)[S.replayPos + 1]; S.replayPos += 2; if (to >= 0 && to < S.n && to != me && runnable(to)) return to; }
        if (!forced) return -1;
        for (int i = 0; i < S.n; i++) if (i != me && runnable(i)) return i;
        return -1;
    }
    int cand[MAXT]; int nc = 0;
    for (int i = 0; i < S.n; i++) if (i != me && runnable(i)) cand[nc++] = i;
    if (!nc) return -1;
    int to = cand[S.rng.below((uint64_t)nc)];
    S.recorded.push_back((int64_t)S.steps); S.recorded.push_back(to);
    return to;
}
// a yield point: maybe hand the baton to another runnable thread
static void schedPoint(bool lockEdge = false) {
    int me = tlsId;
    if (!S.active || me < 0 || S.current != me) return;
    S.steps++;
    if (S.steps > S.budget && !S.budgetExceeded) { S.budgetExceeded = true; S.noPreempt = true; }
    bool want;
    if (S.replay) want = S.replayPos + 1 < S.replay->size() && (uint64_t)(*S.replay)[S.replayPos] <= S.steps;
    else if (S.noPreempt) want = false;
    else if (S.nChangePoints) { want = false; for (int k = 0; k < S.nChangePoints; k++) if (S.changePoints[k] == S.steps) want = true; }
    else if (S.biasLock && lockEdge) want = true;
    else want = S.rng.below(S.preemptDen) < S.preemptNum;
    if (!want) return;
    int to = pickOther(me, false);
    if (to >= 0) handoff(me, to);
}
// the calling thread cannot continue (blocked or finished): somebody else must run
static void mustSwitch(int me) {
    int to = pickOther(me, true);
    if (to >= 0) { handoff(me, to); return; }
    // nobody is runnable
    bool allDone = true; for (int i = 0; i < S.n; i++) if (S.t[i].started && !S.t[i].finished) allDone = false;
    if (allDone) return;
    if (!S.deadlock) { S.deadlock = true; S.deadlockDetail = "no runnable thread:"; for (int i = 0; i < S.n; i++) if (S.t[i].started && !S.t[i].finished) S.deadlockDetail += sfmt(" T%d blocked on the detector lock", i); }
}

// ------------------------------------------------------------------------------------------------ simulated mutex (seam)
static void vcJoin(uint32_t* a, const uint32_t* b) { for (int i = 0; i < MAXT; i++) if (b[i] > a[i]) a[i] = b[i]; }
// The platform layer's own mutex functions (src/Platforms/Gcc/UtestPlatform.cpp: PThreadMutexCreate/Lock/Unlock/Destroy) run for real; what is
// simulated is the pthread primitive underneath them, through link-time wraps. A mutex initialised while a run is being set up is simulated.
struct MutexReg { pthread_mutex_t* key; SimMutexObj* obj; };
static MutexReg g_mutexes[64]; static int g_nMutexes = 0; static bool g_captureMutexes = false;
static SimMutexObj* simObjFor(pthread_mutex_t* m) { for (int i = 0; i < g_nMutexes; i++) if (g_mutexes[i].key == m) return g_mutexes[i].obj; return 0; }
static void simMutexLock(PlatformSpecificMutex pm); static void simMutexUnlock(PlatformSpecificMutex pm);
extern "C" {
int __real_pthread_mutex_init(pthread_mutex_t*, const pthread_mutexattr_t*); int __real_pthread_mutex_lock(pthread_mutex_t*); int __real_pthread_mutex_trylock(pthread_mutex_t*);
int __real_pthread_mutex_unlock(pthread_mutex_t*); int __real_pthread_mutex_destroy(pthread_mutex_t*);
int __wrap_pthread_mutex_init(pthread_mutex_t* m, const pthread_mutexattr_t* a) {
    if (g_captureMutexes && g_nMutexes < 64 && !simObjFor(m)) { SimMutexObj* o = (SimMutexObj*)::calloc(1, sizeof(SimMutexObj)); o->owner = -1; g_mutexes[g_nMutexes].key = m; g_mutexes[g_nMutexes].obj = o; g_nMutexes++; }
    return __real_pthread_mutex_init(m, a);
}
int __wrap_pthread_mutex_destroy(pthread_mutex_t* m) {
    for (int i = 0; i < g_nMutexes; i++) if (g_mutexes[i].key == m) { ::free(g_mutexes[i].obj); g_mutexes[i] = g_mutexes[--g_nMutexes]; break; }
    return __real_pthread_mutex_destroy(m);
}
int __wrap_pthread_mutex_lock(pthread_mutex_t* m) { SimMutexObj* o = simObjFor(m); if (!o) return __real_pthread_mutex_lock(m); simMutexLock(o); return 0; }
int __wrap_pthread_mutex_unlock(pthread_mutex_t* m) { SimMutexObj* o = simObjFor(m); if (!o) return __real_pthread_mutex_unlock(m); simMutexUnlock(o); return 0; }
int __wrap_pthread_mutex_trylock(pthread_mutex_t* m);
}
static void simMutexLock(PlatformSpecificMutex pm) {
    SimMutexObj* m = (SimMutexObj*)pm; int me = tlsId;
    if (!S.active || me < 0) return;
    schedPoint(true);
    bool contended = false;
    while (m->owner != -1) {
        if (m->owner == me) {            // a non-recursive mutex taken again by its holder: the thread would hang forever
            if (!S.selfDeadlock) { S.selfDeadlock = true; S.deadlockDetail = sfmt("T%d acquires the detector lock it already holds (it was left locked)", me); }
            break;                                           // recorded; grant the lock so that the run can finish
        }
        contended = true;
        S.t[me].blocked = true; S.t[me].waitingFor = m;
        mustSwitch(me);
        S.t[me].blocked = false; S.t[me].waitingFor = 0;
        if (S.deadlock) break;                               // recorded; break the deadlock by force so that the worker survives
    }
    m->owner = me; m->acquisitions++; if (contended) { m->contended++; probe("lock_contended"); }
    vcJoin(S.t[me].vc, m->vc);
    schedPoint(true);
}
static void simMutexUnlock(PlatformSpecificMutex pm) {
    SimMutexObj* m = (SimMutexObj*)pm; int me = tlsId;
    if (!S.active || me < 0) return;
    schedPoint(true);
    if (m->owner != me) { S.unlockByOther = true; }
    memcpy(m->vc, S.t[me].vc, sizeof m->vc);
    S.t[me].vc[me]++;
    m->owner = -1;
    for (int i = 0; i < S.n; i++) if (S.t[i].blocked && S.t[i].waitingFor == m) S.t[i].blocked = false;   // waiters become runnable and re-check
    schedPoint(true);
}

extern "C" int __wrap_pthread_mutex_trylock(pthread_mutex_t* pm) {
    SimMutexObj* m = simObjFor(pm); if (!m) return __real_pthread_mutex_trylock(pm);
    int me = tlsId;
    if (!S.active || me < 0) return 0;
    schedPoint(true);
    if (m->owner != -1) { probe("trylock_busy"); schedPoint(true); return EBUSY; }
    m->owner = me; m->acquisitions++; vcJoin(S.t[me].vc, m->vc);
    schedPoint(true);
    return 0;
}

static int g_timedTries[MAXT];
// A timed lock may time out whenever the mutex is held by someone else ("the holder was slow" is always a legal schedule): it does so after the
// other threads had one more chance to run. A free mutex is taken as by lock().
extern "C" int __real_pthread_mutex_timedlock(pthread_mutex_t*, const struct timespec*);
extern "C" int __wrap_pthread_mutex_timedlock(pthread_mutex_t* pm, const struct timespec* until) {
    SimMutexObj* m = simObjFor(pm); if (!m) return __real_pthread_mutex_timedlock(pm, until);
    int me = tlsId;
    if (!S.active || me < 0) return 0;
    schedPoint(true);
    if (m->owner != -1 && m->owner != me && g_timedTries[me] == 0) {
        // the first wait of a thread on a held mutex times out - after the waiting time has passed, i.e. after some other thread has run; a caller that
        // waits again (a retry loop) then waits for real, so that such a loop ends whatever the schedule
        g_timedTries[me] = 1;
        int to = pickOther(me, true); if (to >= 0) handoff(me, to);
        if (m->owner != -1 && m->owner != me) { probe("timedlock_timed_out"); return ETIMEDOUT; }
    }
    simMutexLock(m); g_timedTries[me] = 0;
    return 0;
}

// ------------------------------------------------------------------------------------------------ happens-before race detector
struct Shadow { uintptr_t addr; uint32_t gen; int wt; uint32_t wc; uint32_t rc[MAXT]; };
enum { SHADOW_BITS = 17, SHADOW_SIZE = 1 << SHADOW_BITS };
static Shadow* shadowTab; static uint32_t shadowGen = 1;
static Shadow* shadowFor(uintptr_t a, bool create) {
    size_t h = (size_t)((a * 0x9E3779B97F4A7C15ULL) >> (64 - SHADOW_BITS));
    for (size_t probeN = 0; probeN < 64; probeN++) {
        Shadow& s = shadowTab[(h + probeN) & (SHADOW_SIZE - 1)];
        if (s.gen != shadowGen) { if (!create) return 0; s.gen = shadowGen; s.addr = a; s.wt = -1; s.wc = 0; memset(s.rc, 0, sizeof s.rc); return &s; }
        if (s.addr == a) return &s;
    }
    return 0;
}
static void shadowForget(uintptr_t a, size_t n) { for (size_t i = 0; i < n && i < 4096; i++) { Shadow* s = shadowFor(a + i, false); if (s) { s->wt = -1; memset(s->rc, 0, sizeof s->rc); } } }
static void noteRace(uintptr_t a, int t1, bool w1, int t2, bool w2) { if (S.deadlock || S.selfDeadlock) return; /* the lock was broken by force: what follows is no evidence */ if (S.races.size() < 8) { Race r; r.addr = a; r.t1 = t1; r.t2 = t2; r.w1 = w1; r.w2 = w2; S.races.push_back(r); } }
static void access(const void* p, bool write) {
    int me = tlsId;
    if (!S.active || me < 0 || S.current != me) return;
    S.accesses++;
    Shadow* s = shadowFor((uintptr_t)p, true);
    if (s) {
        uint32_t* vc = S.t[me].vc;
        if (s->wt >= 0 && s->wt != me && s->wc > vc[s->wt]) noteRace((uintptr_t)p, s->wt, true, me, write);
        if (write) {
            for (int u = 0; u < S.n; u++) if (u != me && s->rc[u] > vc[u]) { noteRace((uintptr_t)p, u, false, me, true); break; }
            s->wt = me; s->wc = vc[me]; memset(s->rc, 0, sizeof s->rc);
        } else s->rc[me] = vc[me];
    }
    schedPoint();
}

}  // namespace ts

// An exception object lives in memory that libc's allocator hands out and takes back outside the simulated heap: a recycled address is a new object,
// not a conflicting access to the old one (TSan proper resets its shadow at malloc the same way).
extern "C" void* __real___cxa_allocate_exception(size_t);
extern "C" void* __wrap___cxa_allocate_exception(size_t n) { void* p = __real___cxa_allocate_exception(n); if (p && ts::S.active) ts::shadowForget((uintptr_t)p, n); return p; }

// the callbacks gcc's -fsanitize=thread instrumentation emits (no TSan runtime is linked)
extern "C" {
void __tsan_init() {}
void __tsan_func_entry(void*) {}
void __tsan_func_exit() {}
void __tsan_read1(void* p) { ts::access(p, false); }
void __tsan_read2(void* p) { ts::access(p, false); }
void __tsan_read4(void* p) { ts::access(p, false); }
void __tsan_read8(void* p) { ts::access(p, false); }
void __tsan_read16(void* p) { ts::access(p, false); }
void __tsan_write1(void* p) { ts::access(p, true); }
void __tsan_write2(void* p) { ts::access(p, true); }
void __tsan_write4(void* p) { ts::access(p, true); }
void __tsan_write8(void* p) { ts::access(p, true); }
void __tsan_write16(void* p) { ts::access(p, true); }
void __tsan_unaligned_read2(void* p) { ts::access(p, false); }
void __tsan_unaligned_read4(void* p) { ts::access(p, false); }
void __tsan_unaligned_read8(void* p) { ts::access(p, false); }
void __tsan_unaligned_write2(void* p) { ts::access(p, true); }
void __tsan_unaligned_write4(void* p) { ts::access(p, true); }
void __tsan_unaligned_write8(void* p) { ts::access(p, true); }
void __tsan_read_range(void* p, unsigned long n) { for (unsigned long i = 0; i < n && i < 64; i += 8) ts::access((char*)p + i, false); }
void __tsan_write_range(void* p, unsigned long n) { for (unsigned long i = 0; i < n && i < 64; i += 8) ts::access((char*)p + i, true); }
void __tsan_vptr_update(void** p, void*) { ts::access(p, true); }
void __tsan_vptr_read(void** p) { ts::access(p, false); }
// static-local guard variables are read atomically; atomics are synchronisation, not data accesses
unsigned char __tsan_atomic8_load(const volatile unsigned char* a, int) { return __atomic_load_n(a, __ATOMIC_ACQUIRE); }
unsigned int __tsan_atomic32_load(const volatile unsigned int* a, int) { return __atomic_load_n(a, __ATOMIC_ACQUIRE); }
unsigned long __tsan_atomic64_load(const volatile unsigned long* a, int) { return __atomic_load_n(a, __ATOMIC_ACQUIRE); }
void __tsan_atomic8_store(volatile unsigned char* a, unsigned char v, int) { __atomic_store_n(a, v, __ATOMIC_RELEASE); }
void __tsan_atomic32_store(volatile unsigned int* a, unsigned int v, int) { __atomic_store_n(a, v, __ATOMIC_RELEASE); }
void __tsan_atomic64_store(volatile unsigned long* a, unsigned long v, int) { __atomic_store_n(a, v, __ATOMIC_RELEASE); }
}

namespace ts {

// ------------------------------------------------------------------------------------------------ heap seam
// The platform heap is a bump arena at a fixed address, reset for every run: block addresses (and with them the detector's
// hash-bucket chains, hence the number of instrumented accesses, hence the schedule) are a pure function of the seed.
static void* (*realMalloc)(size_t); static void* (*realRealloc)(void*, size_t); static void (*realFree)(void*); static void* (*realMemset)(void*, int, size_t);
static char* arena; static size_t arenaCap = (size_t)256 << 20, arenaTop; static bool arenaOn;
static void arenaInit() {
    static const uintptr_t tries[] = { 0x500000000000ULL, 0x510000000000ULL, 0x4f0000000000ULL };
    for (size_t i = 0; i < 3 && !arena; i++) { void* p = mmap((void*)tries[i], arenaCap, PROT_READ | PROT_WRITE, MAP_PRIVATE | MAP_ANONYMOUS | MAP_NORESERVE | MAP_FIXED_NOREPLACE, -1, 0); if (p != MAP_FAILED && (uintptr_t)p == tries[i]) arena = (char*)p; else if (p != MAP_FAILED) munmap(p, arenaCap); }
    if (!arena) { fprintf(stderr, "thrsim: cannot map the fixed-address arena\n"); _Exit(2); }
}
static bool inArena(const void* p) { return (const char*)p >= arena && (const char*)p < arena + arenaCap; }
static void* arenaAlloc(size_t n) {
    size_t need = ((n + 15) & ~(size_t)15) + 16;
    if (arenaTop + need > arenaCap) return 0;
    char* base = arena + arenaTop; arenaTop += need;
    *(size_t*)base = n;
    return base + 16;
}
static bool g_failNextMallocOfT0 = false;      // one platform malloc of the test thread answers NULL (under the detector's lock)
static void* heapMalloc(size_t n) { schedPoint(); if (g_failNextMallocOfT0 && tlsId == 0) { g_failNextMallocOfT0 = false; fired("platform_malloc_null_under_lock"); return 0; } if (!arenaOn) return realMalloc(n); void* p = arenaAlloc(n); if (p) shadowForget((uintptr_t)p, n); return p; }
static void heapFree(void* p) { schedPoint(); if (!p) return; if (inArena(p)) { shadowForget((uintptr_t)p, *(size_t*)((char*)p - 16)); return; } realFree(p); }
static void* heapRealloc(void* p, size_t n) {
    schedPoint();
    if (p && !inArena(p)) return realRealloc(p, n);
    if (!arenaOn) return realRealloc(p, n);
    void* q = arenaAlloc(n); if (!q) return 0;
    if (p) { size_t old = *(size_t*)((char*)p - 16); memcpy(q, p, old < n ? old : n); shadowForget((uintptr_t)p, old); }
    shadowForget((uintptr_t)q, n);
    return q;
}
static void* heapMemset(void* p, int c, size_t n) { schedPoint(); return realMemset(p, c, n); }

class RecReporter : public MemoryLeakFailure {
public:
    void fail(char* s) CPPUTEST_OVERRIDE { S.reports++; if (S.firstReport.empty()) { const char* nl = strchr(s, '\n'); S.firstReport.assign(s, nl ? (size_t)(nl - s) : strlen(s)); } }
};

// ------------------------------------------------------------------------------------------------ scripted threads
static void release(const Held& h) {
    if (h.form == 0 || h.form == 2) ::operator delete(h.p);
    else if (h.form == 1 || h.form == 3) ::operator delete[](h.p);
    else cpputest_free_location(h.p, "thr.c", 9);
}
static void* acquire(int form, size_t size, int line) {
    switch (form) {
    case 0: return ::operator new(size, "thr.cpp", (size_t)line);
    case 1: return ::operator new[](size, "thr.cpp", (size_t)line);
    case 2: return ::operator new(size, std::nothrow);
    case 3: return ::operator new[](size, std::nothrow);
    case 5: return cpputest_realloc_location(0, size, "thr.c", (size_t)line);      // realloc(NULL, n) allocates
    default: return cpputest_malloc_location(size, "thr.c", (size_t)line);
    }
}
static SimpleMutex* g_userMutex = 0;
static void runScript(int me) {
    Thr& T = S.t[me]; const Group& G = *T.script;
    for (size_t i = 0; i < G.ops.size(); i++) {
        const Op& o = G.ops[i];
        S.order.u64((uint64_t)me * 1000 + i);
        Held& H = T.slots[(size_t)o.a % N_SLOTS];
        switch (o.kind) {
        case X_ALLOC: if (!H.p) {
            H.form = (int)(o.b % 6);
            if (o.c < 0) {      // a request that cannot be satisfied (size + bookkeeping overflows): NULL or bad_alloc, nothing held, the lock released once
                size_t huge = SIZE_MAX - (size_t)(-1 - o.c); void* q = 0; bool threw = false;
#if CPPUTEST_HAVE_EXCEPTIONS
                try { q = acquire(H.form, huge, 100 + me); } catch (std::bad_alloc&) { threw = true; }
#else
                q = acquire(H.form, huge, 100 + me);
#endif
                fired("refused_request_in_thread");
                if (q) { S.refusedGotBlock = true; }
                (void)threw;
                break;
            }
            H.size = (size_t)o.c; H.p = acquire(H.form, H.size, 100 + me); if (H.p) memset(H.p, 0x40 + me, H.size); } break;
        case X_FREE: if (H.p) { Held h = H; H.p = 0; release(h); } break;
        case X_REALLOC: if (H.p && H.form >= 4) { H.p = cpputest_realloc_location(H.p, (size_t)o.c, "thr.c", 7); H.size = (size_t)o.c; } break;
        case X_SEND: if (H.p) { int to = (int)(o.b % S.n); if (to == me || !S.t[to].script) break; S.t[to].mailbox.push_back(H); vcJoin(S.t[to].mailVc, T.vc); T.vc[me]++; H.p = 0; probe("block_handed_to_other_thread"); } break;
        case X_RECV: { vcJoin(T.vc, T.mailVc); Vec<Held> mb; mb.swap(T.mailbox); for (size_t k = 0; k < mb.size(); k++) release(mb[k]); break; }
        case X_YIELD: schedPoint(); break;
        case X_USERLOCK: { ScopedMutexLock own(g_userMutex); probe("second_mutex_taken"); schedPoint(); char* q = new char[8]; q[0] = 1; delete[] q; break; }      // another lock of the same platform layer, held across a scheduling point
        default: break;
        }
    }
}
static void* threadMain(void* arg) {
    int me = (int)(intptr_t)arg; tlsId = me;
    while (sem_wait(&S.t[me].sem) != 0) {}
    runScript(me);
    S.t[me].finished = true;
    // whoever finishes passes the baton on; the last one wakes thread 0 (which is waiting in joinAll)
    int to = pickOther(me, true);
    if (to < 0) {
        bool stuck = false; for (int i = 1; i < S.n; i++) if (S.t[i].started && !S.t[i].finished) stuck = true;
        if (stuck && !S.deadlock) { S.deadlock = true; S.deadlockDetail = "threads still blocked on the detector lock when the last runnable thread finished"; }
        if (stuck) for (int i = 1; i < S.n; i++) if (S.t[i].started && !S.t[i].finished && S.t[i].blocked) { S.t[i].blocked = false; to = i; break; }   // break it by force
        if (to < 0) to = 0;
    }
    S.switches++; S.current = to; sem_post(&S.t[to].sem);
    return 0;
}

// ------------------------------------------------------------------------------------------------ the misuse-while-locked test (runs on thread 0)
static const Group* g_testScript; static bool g_teardownMisuse = false; static bool g_allocatingOutput = false;
static char* foreignAddress() { return arena + arenaCap - 4096; }     // never handed out; only its value is used, it is never dereferenced
class MisuseTest : public Utest {
public:
    void testBody() CPPUTEST_OVERRIDE {
        const Group& G = *g_testScript;
        for (size_t i = 0; i < G.ops.size(); i++) {
            const Op& o = G.ops[i];
            Held& H = S.t[0].slots[(size_t)o.a % N_SLOTS];
            if (o.kind == X_ALLOC) { if (!H.p) { H.form = (int)(o.b % 5); H.size = (size_t)o.c; H.p = acquire(H.form, H.size, 100); } }
            else if (o.kind == X_FREE) { if (H.p) { Held h = H; H.p = 0; release(h); } }
            else if (o.kind == X_YIELD) schedPoint();
            else if (o.kind == X_MISUSE) {
                fired("misuse_under_lock");
                if (o.a == 0) { int form = (int)(o.b % 5); size_t n = (size_t)o.c; char* p = (char*)acquire(form, n, 55); p[n] = 'X'; Held h; h.p = p; h.form = form; h.size = n; release(h); }   // overrun, then release: corruption report
                else if (o.a == 1) { char* notHeap = foreignAddress(); Held h; h.p = notHeap;     /* a fixed address: a static's address moves with ASLR and with it the bucket it hashes to */ h.form = (int)(o.b % 5); h.size = 1; release(h); }                                                  // foreign pointer: non-allocated report
                else if (o.a == 3) { cpputest_realloc_location(foreignAddress(), (size_t)o.c, "thr.c", 9); }                  // realloc of a foreign pointer
                else if (o.a == 4) { char* p = (char*)acquire(0, 8, 57); cpputest_realloc_location(p, 16, "thr.c", 10); }       // realloc of a block that came from new
                else if (o.a == 5) { size_t n = (size_t)o.c; char* p = (char*)acquire(4, n, 58); p[n] = 'X'; cpputest_realloc_location(p, n + 8, "thr.c", 11); }   // overrun, then realloc
                else if (o.a == 6 && g_allocatingOutput) { /* see DESIGN 10.3: with an output that allocates while it records the failure this is the known finding's FAIL raised under the lock; not mixed */ }
                else if (o.a == 6) { g_failNextMallocOfT0 = true; char* p = (o.b & 1) ? (char*)cpputest_malloc_location((size_t)o.c, "thr.c", 12) : new char[(size_t)o.c]; g_failNextMallocOfT0 = false; if (p) { Held h; h.p = p; h.form = (o.b & 1) ? 4 : 1; h.size = (size_t)o.c; release(h); } }      // not a misuse but the other failure raised under the lock: the default allocator fails the test when the platform has no memory
                else if (o.a == 7) { fired("plain_check_fails_beside_workers"); FAIL_TEXT_C_LOCATION("the test's own failing check", "thr.c", 13); }      // no misuse at all: the test leaves by the same jump while a worker may be inside the detector
                else { char* p = (char*)acquire(0, 8, 56); Held h; h.p = p; h.form = 4; h.size = 8; release(h); }                                                                          // new / free mismatch
            }
        }
    }
    void teardown() CPPUTEST_OVERRIDE {
        char* p = new char[12]; delete[] p;    // the next allocation after the failure: needs the lock again
        if (g_teardownMisuse) { fired("second_misuse_in_teardown"); Held h; h.p = foreignAddress(); h.form = 4; h.size = 8; release(h); char* q = new char[5]; delete[] q; }      // a second misuse of the same (already failed) test, then one more allocation
    }
};
class MisuseShell : public UtestShell { public: MisuseShell() : UtestShell("Thr", "misuse", "thr_test.cpp", 5) {} Utest* createTest() CPPUTEST_OVERRIDE { return new MisuseTest; } };

static Json sg(const char* k, const char* v) { Json j = Json::O(); j.set(k, Json::S(v)); return j; }

struct Engine : public vf::Engine {
    const char* name() const { return "thrsim"; }
    const char* variant() const { return "tsi"; }
    KindNameFn kindName() const { return ts::kindName; }
    KindFromNameFn kindFromName() const { return ts::kindFromName; }
    Vec<int64_t> lastRecorded;
    void recordedSchedule(Vec<int64_t>& out) { out = lastRecorded; }
    void initProcess() {
        installBasicSeams();
        shadowTab = (Shadow*)::calloc(SHADOW_SIZE, sizeof(Shadow));
        arenaInit();
        realMalloc = PlatformSpecificMalloc; realRealloc = PlatformSpecificRealloc; realFree = PlatformSpecificFree; realMemset = PlatformSpecificMemset;
        g_captureMutexes = true;      // from here on every pthread mutex the library initialises (the detector's) is a simulated one
        g_userMutex = new (::malloc(sizeof(SimpleMutex))) SimpleMutex();
        PlatformSpecificMalloc = heapMalloc; PlatformSpecificRealloc = heapRealloc; PlatformSpecificFree = heapFree; PlatformSpecificMemset = heapMemset;
        // function-local statics of the framework are initialised once, before any simulated thread exists
        defaultNewAllocator(); defaultNewArrayAllocator(); defaultMallocAllocator(); getCurrentNewAllocator(); getCurrentNewArrayAllocator(); getCurrentMallocAllocator(); NullUnknownAllocator::defaultAllocator();
        MemoryLeakWarningPlugin::getGlobalDetector();
        for (int i = 0; i < MAXT; i++) sem_init(&S.t[i].sem, 0, 0);
        // one throw-away run per profile: whatever the framework initialises lazily (function-local statics, the outside-test shell) is
        // then initialised before the first real run, so the first run of a process equals every later execution of the same seed
        const char* warm[2] = { "threads", "locked_misuse" };
        for (int k = 0; k < 2; k++) { Desc d; d.engine = name(); d.profile = warm[k]; d.seed = 12345; generate(d.seed, d.profile, d); RunResult r; execute(d, r); }
        counters().c.clear();
    }

    void generate(uint64_t seed, const Str& profile, Desc& d) {
        Rng w(mix64(seed, 41));
        bool misuse = profile == "locked_misuse";
        int nThreads = (int)w.small(2, 16); if (w.chance(1, 2)) nThreads = (int)w.range(2, 4);
        if (misuse) nThreads = (int)w.range(1, 4);
        static const int dens[] = { 2, 3, 4, 8, 16, 32, 64 };
        d.p["preempt_den"] = dens[w.below(7)]; d.p["bias_lock"] = w.chance(1, 4);
        if (w.chance(1, 4)) { d.p["few_points"] = w.range(1, 4); static const int spans[] = { 200, 1000, 4000, 12000 }; d.p["few_span"] = spans[w.below(4)]; d.p["bias_lock"] = 0; }      // long uninterrupted stretches with 1-4 preemptions
        d.p["misuse"] = misuse; if (misuse) d.p["junit_out"] = w.chance(1, 2);
        if (misuse) d.p["teardown_misuse"] = w.chance(1, 4);      // the test's teardown commits a second misuse
        d.p["save_restore"] = w.chance(1, 4);      // the overloads are saved+disabled and restored once after thread-safe mode was switched on (the documented bracket for untracked code)
        if (misuse) {
            Group T; T.tag = "test";
            int n = (int)w.range(0, 6);
            for (int i = 0; i < n; i++) { Op o; o.kind = w.chance(1, 2) ? X_ALLOC : X_FREE; o.a = (int64_t)w.below(4); o.b = (int64_t)w.below(5); o.c = w.range(1, 40); T.ops.push_back(o); }
            Op m; m.kind = X_MISUSE; m.a = (int64_t)w.below(8); m.b = (int64_t)w.below(5); m.c = w.range(1, 40); T.ops.insert(T.ops.begin() + (long)w.below(T.ops.size() + 1), m);
            d.groups.push_back(T);
        }
        for (int t = 0; t < nThreads; t++) {
            Group G; G.tag = "thread";
            int nOps = (int)w.small(misuse ? 2 : 5, misuse ? 30 : 200);
            for (int i = 0; i < nOps; i++) {
                Op o; unsigned x = (unsigned)w.below(100);
                if (x < 45) { o.kind = X_ALLOC; o.a = (int64_t)w.below(N_SLOTS); o.b = (int64_t)w.below(6); o.c = w.small(1, 120); if (w.chance(1, 30)) o.c = -1 - (int64_t)w.below(60); }
                else if (x < 80) { o.kind = X_FREE; o.a = (int64_t)w.below(N_SLOTS); }
                else if (x < 86) { o.kind = X_REALLOC; o.a = (int64_t)w.below(N_SLOTS); o.c = w.chance(1, 6) ? 0 : w.small(1, 200); }      // also to size 0
                else if (x < 92 && !misuse) { o.kind = X_SEND; o.a = (int64_t)w.below(N_SLOTS); o.b = (int64_t)w.below(16); }
                else if (x < 97 && !misuse) o.kind = X_RECV;
                else if (x < 99 && w.chance(1, 2)) o.kind = X_USERLOCK;
                else o.kind = X_YIELD;
                G.ops.push_back(o);
            }
            d.groups.push_back(G);
        }
    }

    void execute(const Desc& d, RunResult& r) {
        // fresh detector per run: the recording reporter for the plain profile, the framework's own (longjmp) reporter for the misuse profile
        bool misuse = d.pi("misuse") != 0;
        Vec<const Group*> scripts; const Group* testScript = 0;
        for (size_t g = 0; g < d.groups.size(); g++) { if (d.groups[g].tag == "thread" && scripts.size() < MAXT - 1) scripts.push_back(&d.groups[g]); else if (d.groups[g].tag == "test") testScript = &d.groups[g]; }
        if (arenaTop) memset(arena, 0, arenaTop);      // every run starts on zeroed memory, like the first one
        arenaTop = 0; arenaOn = true;
        RecReporter rep;
        MemoryLeakWarningPlugin::turnOnDefaultNotThreadSafeNewDeleteOverloads();   // a known starting point (destroyGlobalDetector() switches the overloads off)
        MemoryLeakDetector* oldDet = MemoryLeakWarningPlugin::getGlobalDetector(); MemoryLeakFailure* oldRep = MemoryLeakWarningPlugin::getGlobalFailureReporter();
        MemoryLeakDetector* det;
        if (misuse) { MemoryLeakWarningPlugin::destroyGlobalDetector(); det = MemoryLeakWarningPlugin::getGlobalDetector(); oldDet = 0; }
        else { det = new (::malloc(sizeof(MemoryLeakDetector))) MemoryLeakDetector(&rep); MemoryLeakWarningPlugin::setGlobalDetector(det, &rep); }
        det->enable(); if (misuse) det->startChecking();
        MemoryLeakWarningPlugin::turnOnThreadSafeNewDeleteOverloads();      // before the threads start, as the property says
        if (d.pi("save_restore")) { MemoryLeakWarningPlugin::saveAndDisableNewDeleteOverloads(); MemoryLeakWarningPlugin::restoreNewDeleteOverloads(); fired("overloads_saved_and_restored"); }

        // reset the simulator
        S.n = (int)scripts.size() + 1; S.rng.reseed(mix64(d.seed, 4242)); S.preemptNum = 1; S.preemptDen = (unsigned)d.pi("preempt_den", 8); S.biasLock = d.pi("bias_lock") != 0;
        S.nChangePoints = (int)d.pi("few_points"); if (S.nChangePoints > 4) S.nChangePoints = 4; for (int k = 0; k < S.nChangePoints; k++) S.changePoints[k] = 1 + S.rng.below((uint64_t)d.pi("few_span", 4000));
        S.steps = 0; S.budget = 4000000; S.noPreempt = false; S.recorded.clear(); S.replay = d.schedule.empty() ? 0 : &d.schedule; S.replayPos = 0; S.switches = 0; S.order = Hash();
        memset(g_timedTries, 0, sizeof g_timedTries);
        S.deadlock = S.selfDeadlock = S.unlockByOther = S.budgetExceeded = false; S.refusedGotBlock = false; S.deadlockDetail.clear(); S.races.clear(); S.accesses = 0; S.reports = 0; S.firstReport.clear();
        shadowGen++;
        for (int i = 0; i < MAXT; i++) { sem_destroy(&S.t[i].sem); sem_init(&S.t[i].sem, 0, 0); }      // no stale wake-up can survive from an earlier run
        for (int i = 0; i < S.n; i++) { Thr& T = S.t[i]; T.id = i; T.started = true; T.finished = false; T.blocked = false; T.waitingFor = 0; memset(T.vc, 0, sizeof T.vc); T.vc[i] = 1; memset(T.slots, 0, sizeof T.slots); T.mailbox.clear(); memset(T.mailVc, 0, sizeof T.mailVc); T.script = i == 0 ? 0 : scripts[(size_t)i - 1]; }
        tlsId = 0; S.current = 0;
        for (int i = 1; i < S.n; i++) { memcpy(S.t[i].vc, S.t[0].vc, sizeof S.t[0].vc); S.t[i].vc[i] = 1; pthread_create(&S.t[i].th, 0, threadMain, (void*)(intptr_t)i); }   // thread start edge
        S.t[0].vc[0]++;
        S.active = true;

        size_t testFailures = 0; Str testFailureText;
        if (misuse && testScript) {
            // thread 0 is the test runner: a real test whose body misuses memory while the workers allocate
            g_testScript = testScript; g_teardownMisuse = d.pi("teardown_misuse", 0) != 0; g_allocatingOutput = d.pi("junit_out") != 0;
            TestRegistry reg; TestRegistry* saved = TestRegistry::getCurrentRegistry(); reg.setCurrentRegistry(&reg);
            MisuseShell* shell = new (::malloc(sizeof(MisuseShell))) MisuseShell(); reg.addTest(shell);
            if (d.pi("junit_out")) {
                // an output that allocates through the overloaded operators while it records a failure (JUnitTestOutput copies the TestFailure with new)
                simIO().reset();
                JUnitTestOutput* out = new (::malloc(sizeof(JUnitTestOutput))) JUnitTestOutput(); TestResult res(*out);
                reg.runAllTests(res);
                testFailures = res.getFailureCount(); testFailureText = "(junit output)";
                out->~JUnitTestOutput(); ::free(out);
            } else {
                StringBufferTestOutput out; TestResult res(out);
                reg.runAllTests(res);
                testFailures = res.getFailureCount(); testFailureText = out.getOutput().asCharString();
            }
            saved->setCurrentRegistry(0); shell->~MisuseShell(); ::free(shell);
        } else {
            schedPoint();
        }
        // thread 0 has nothing more to do: let the others finish (join)
        S.t[0].finished = true;
        {
            int to = -1; for (int i = 1; i < S.n; i++) if (runnable(i)) { to = i; break; }
            if (to < 0) { bool stuck = false; for (int i = 1; i < S.n; i++) if (!S.t[i].finished) stuck = true;
                if (stuck) { if (!S.deadlock) { S.deadlock = true; S.deadlockDetail = "worker threads blocked on the detector lock although the test runner is done"; } for (int i = 1; i < S.n; i++) if (!S.t[i].finished && S.t[i].blocked) { S.t[i].blocked = false; to = i; break; } } }
            if (to >= 0) { S.t[0].finished = false; S.t[0].blocked = true; handoff(0, to); S.t[0].blocked = false; S.t[0].finished = true; }
        }
        for (int i = 1; i < S.n; i++) { pthread_join(S.t[i].th, 0); vcJoin(S.t[0].vc, S.t[i].vc); }
        S.active = false; S.current = 0;
        lastRecorded = S.recorded;

        // ---- oracles
        r.nontrivial = S.switches > 2;
        r.sim_ms = 0;
        if (!S.races.empty()) { const Race& rc = S.races[0]; r.fail("C10", "data_race", sg("kind", rc.w1 && rc.w2 ? "write-write" : "read-write"), sfmt("unordered %s by T%d and %s by T%d on detector state at %p (%zu races; no lock edge orders them)", rc.w1 ? "write" : "read", rc.t1, rc.w2 ? "write" : "read", rc.t2, (void*)rc.addr, S.races.size())); }
        if (S.selfDeadlock) r.fail("C10", "lock_left_held", sg("what", "self deadlock"), S.deadlockDetail);
        else if (S.deadlock) r.fail("C10", "deadlock", sg("what", "no runnable thread"), S.deadlockDetail);
        if (S.unlockByOther) r.fail("C10", "unlock_by_non_owner", "the detector lock was released by a thread that does not hold it");
        if (S.refusedGotBlock) r.fail("C10", "refused_request", "a request whose size overflows with the bookkeeping returned a block");
        if (S.budgetExceeded) r.fail("C10", "step_budget", sfmt("run needed more than %llu scheduling steps", (unsigned long long)S.budget));
        if (!misuse) {
            if (S.reports) r.fail("C10", "misuse_report_in_clean_workload", sg("first", S.firstReport.c_str()), sfmt("%llu misuse reports although every block released was outstanding; first: %s", (unsigned long long)S.reports, S.firstReport.c_str()));
            // quiescence: the outstanding set is the union of what the threads still hold
            Vec<Str> want;
            for (int i = 0; i < S.n; i++) { for (int k = 0; k < N_SLOTS; k++) if (S.t[i].slots[k].p) want.push_back(sfmt("%zu|%s", S.t[i].slots[k].size, S.t[i].slots[k].form >= 4 ? "malloc" : (S.t[i].slots[k].form == 1 || S.t[i].slots[k].form == 3 ? "new []" : "new")));
                for (size_t k = 0; k < S.t[i].mailbox.size(); k++) want.push_back(sfmt("%zu|%s", S.t[i].mailbox[k].size, S.t[i].mailbox[k].form >= 4 ? "malloc" : (S.t[i].mailbox[k].form == 1 || S.t[i].mailbox[k].form == 3 ? "new []" : "new"))); }
            size_t total = det->totalMemoryLeaks(mem_leak_period_all);
            if (total != want.size()) r.fail("C10", "outstanding_set", sg("what", total < want.size() ? "blocks lost" : "phantom blocks"), sfmt("detector holds %zu blocks, the threads hold %zu", total, want.size()));
            else if (r.viols.empty() && total <= 12) {
                det->startChecking(); det->enable();
                Str rep2 = det->report(mem_leak_period_all); Vec<Str> got; Vec<unsigned> nums;
                { Vec<LeakEntry> ents; long stated = -1; parseLeakReport(rep2, ents, stated); for (size_t q = 0; q < ents.size(); q++) if (ents[q].complete) { got.push_back(sfmt("%lu|%s", ents[q].size, ents[q].type.c_str())); nums.push_back(ents[q].num); } }
                if (rep2.size() + 400 < (size_t)SimpleStringBuffer::SIMPLE_STRING_BUFFER_LEN) {      // (the report had room for everything)
                    std::sort(want.begin(), want.end()); std::sort(got.begin(), got.end()); std::sort(nums.begin(), nums.end());
                    if (want != got) r.fail("C10", "outstanding_set", sg("what", "report differs from the union of the threads' blocks"), sfmt("%zu reported, %zu held", got.size(), want.size()));
                    for (size_t k = 1; k < nums.size(); k++) if (nums[k] == nums[k - 1]) { r.fail("C10", "allocation_numbers", sfmt("allocation number %u was given out twice", nums[k])); break; }
                }
            }
        } else {
            // exactly one failure for the misusing test, and everybody could still allocate afterwards (checked by the lock oracles above)
            // ... and the failure says which misuse it was (one of the detector's three headlines; with the junit output the text sits in the simulated file)
            size_t wantFailures = d.pi("teardown_misuse", 0) ? 2 : 1;
            if (testScript && d.pi("junit_out")) for (size_t i = 0; i < testScript->ops.size(); i++) if (testScript->ops[i].kind == X_MISUSE && testScript->ops[i].a == 6) wantFailures--;      // (that operation is left out under an allocating output)
            if (testFailures == wantFailures && wantFailures > 0) {
                Str text = testFailureText == "(junit output)" ? Str() : testFailureText;
                if (testFailureText == "(junit output)") for (size_t i = 0; i < simIO().files.size(); i++) text += simIO().files[i]->data;
                bool named = text.find("Deallocating non-allocated memory") != Str::npos || text.find("Allocation/deallocation type mismatch") != Str::npos || text.find("Memory corruption") != Str::npos || text.find("malloc returned null pointer") != Str::npos || text.find("the test's own failing check") != Str::npos;
                if (!named) r.fail("C10", "misuse_report_text", sg("what", "the failure does not say which misuse was detected"), text.substr(0, 300));
            }
            if (testFailures != wantFailures) r.fail("C10", "misuse_reported_once", sg("what", testFailures < wantFailures ? "misuse not reported as a test failure" : "more failures than misuses"), sfmt("%zu failures recorded for the misusing test: %s", testFailures, testFailureText.substr(0, 300).c_str()));
        }

        // ---- cleanup: release what the threads still hold, then drop the detector
        MemoryLeakWarningPlugin::turnOnDefaultNotThreadSafeNewDeleteOverloads();
        if (r.viols.empty()) {
            for (int i = 0; i < S.n; i++) { for (int k = 0; k < N_SLOTS; k++) if (S.t[i].slots[k].p) release(S.t[i].slots[k]); for (size_t k = 0; k < S.t[i].mailbox.size(); k++) release(S.t[i].mailbox[k]); }
        }
        if (misuse) { det->clearAllAccounting(mem_leak_period_all); MemoryLeakWarningPlugin::destroyGlobalDetector(); arenaOn = false; MemoryLeakWarningPlugin::getGlobalDetector(); }
        else { det->clearAllAccounting(mem_leak_period_all); MemoryLeakWarningPlugin::setGlobalDetector(oldDet, oldRep); det->~MemoryLeakDetector(); ::free(det); }
        arenaOn = false;
        counters().inc("probe.instrumented_accesses", S.accesses); counters().inc("probe.context_switches", S.switches);
        if (getenv("THRSIM_DEBUG")) fprintf(stderr, "steps=%llu switches=%llu accesses=%llu arenaTop=%zu reports=%llu\n", (unsigned long long)S.steps, (unsigned long long)S.switches, (unsigned long long)S.accesses, arenaTop, (unsigned long long)S.reports);
        Hash h = S.order; h.u64(S.switches); for (size_t i = 0; i < r.viols.size(); i++) h.str(r.viols[i].cls().c_str());
        r.hash = h.h;
    }
    void simplifications(const Desc& d, Vec<Desc>& out) {
        if (d.pi("bias_lock")) { Desc c = d; c.p["bias_lock"] = 0; out.push_back(c); }
        if (d.pi("junit_out")) { Desc c = d; c.p["junit_out"] = 0; out.push_back(c); }
        if (d.pi("few_points") > 1) { Desc c = d; c.p["few_points"] = d.pi("few_points") - 1; out.push_back(c); }
        if (d.schedule.size() > 2) { Desc c = d; c.schedule.erase(c.schedule.begin(), c.schedule.begin() + 2); out.push_back(c); }
    }
};
}  // namespace ts

int main(int argc, char** argv) { ts::Engine e; return vf::driverMain(argc, argv, e); }
