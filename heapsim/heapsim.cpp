// heapsim - operation histories against the real MemoryLeakDetector / allocator layer over a simulated platform heap
// (fixed-address arena with address steering, failing allocations, dirty memory) and simulated allocators.
// Profiles: accounting (C04), soundness (C05), misuse (C06), diagnostics (C14), oom (C15).
#include "../core/seams.h"
#include "../core/driver.h"
#include "../core/leakreport.h"
#include "CppUTest/MemoryLeakDetector.h"
#include "CppUTest/MemoryLeakWarningPlugin.h"
#include "CppUTest/TestMemoryAllocator.h"
#include "CppUTest/TestHarness_c.h"
#include "CppUTest/TestOutput.h"
#include "CppUTest/TestResult.h"
#include "CppUTest/TestFailure.h"
#include "CppUTest/TestPlugin.h"
#include "CppUTest/MemoryLeakDetectorMallocMacros.h"
#undef new
#undef malloc
#undef free
#undef calloc
#undef realloc
#undef strdup
#undef strndup
#include <sys/mman.h>
#include <algorithm>
#include <sys/wait.h>
#include <unistd.h>
#include <fcntl.h>
#include <errno.h>
#include <stdarg.h>
#if defined(__SANITIZE_ADDRESS__)
#include <sanitizer/asan_interface.h>
#else
#define ASAN_POISON_MEMORY_REGION(a, s) ((void)(a), (void)(s))
#define ASAN_UNPOISON_MEMORY_REGION(a, s) ((void)(a), (void)(s))
#endif

namespace hs {
using namespace vf;

enum Kind {
    H_NONE = 0,
    H_ALLOC,        // a slot, b family (0 new, 1 new[], 2 malloc), c size, d line, s file; phase = route (0 direct inline node, 1 direct separate node, 2 global routing)
    H_FREE,         // a slot, b releasing family (-1+1.. : 0 = same as allocating, 1..3 = family b-1), c entry point of the delete family (0 plain, 1 (file,int), 2 (file,size_t), 3 sized, 4 nothrow)
    H_REALLOC,      // a slot, c new size
    H_ENABLE, H_DISABLE, H_START, H_STOP, H_MARK,
    H_STAGE_INC /* a > 0: round trip of a stages */, H_STAGE_DEC, H_STAGE_FREE,
    H_CLEAR,        // a period
    H_QUERY,        // a period for the report (totals of all four periods are always compared)
    H_FLIP,         // a slot, b region (0 user, 1 guard, 2 padding), c index inside region, d value
    H_BADFREE,      // a kind (0 NULL, 1 stale, 2 interior, 3 stack, 4 untracked heap), b family, c slot/offset, s file (long location strings for C14)
    H_FAULT,        // a kind (0 allocator returns NULL, 1 platform malloc NULL, 2 platform realloc NULL, 3 the allocator's separate bookkeeping-node allocation returns NULL), b countdown (0 = next call) / family
    H_TYPECHECK,    // a on/off
    H_WRAP,         // a family, b wrapper kind (0 default, 1 wrapper with same name, 2 wrapper with different name, 3 MemoryLeakAllocator-style forwarding wrapper, 4 Failable)
    H_CALLOC,       // a slot, b num, c size
    H_STRDUP,       // a slot, b n (-1 = strdup, else strndup n), c string length
    H_DESIGNATE_N,  // a n                      (FailableMemoryAllocator::failAllocNumber)
    H_DESIGNATE_AT, // a n, b site              (failNthAllocAt)
    H_CHECK_DONE, H_CLEAR_FAILS,
    H_OOM_SET, H_OOM_COUNTDOWN /* a count */, H_OOM_CLEAR,
    H_REPORT,       // a period: report() without clearing the buffer first (C14)
    H_STASH,        // GlobalMemoryAllocatorStash save() ... restore() around nothing: the current allocators must come back unchanged
    H_MODE,         // overload mode history: a 0 = off then on again, 1 = save+disable then restore, 2 = switch between the thread-safe and the default overloads
    H_COUNT_RESET,  // cpputest_malloc_count_reset(): the C-level allocation counter starts again; nothing else changes (a pending countdown stays pending)
    H_SSB,          // free-standing SimpleStringBuffer op: a kind (0 add text of length b, 1 memory dump of b bytes, 2 setWriteLimit b, 3 resetWriteLimit, 4 clear)
    H_COUNT
};
static const char* const kNames[H_COUNT] = { "none", "alloc", "free", "realloc", "enable", "disable", "start_checking", "stop_checking", "mark", "stage_inc", "stage_dec", "stage_free",
    "clear_accounting", "query", "flip", "bad_free", "fault", "typecheck", "wrap", "calloc", "strdup", "designate_n", "designate_at", "check_done", "clear_fails", "oom_set", "oom_countdown", "oom_clear", "report", "stash", "mode", "count_reset", "ssb" };
static const char* kindName(int k) { return k >= 0 && k < H_COUNT ? kNames[k] : "none"; }
static int kindFromName(const char* s) { for (int i = 0; i < H_COUNT; i++) if (!strcmp(s, kNames[i])) return i; return H_NONE; }

enum { GUARD = MemoryLeakDetector::memory_corruption_buffer_size };      // the library's own number of guard bytes (0 in the no-guard build)
enum { N_SLOTS = 256, N_SITES = 4 };

// ------------------------------------------------------------------------------------------------ simulated platform heap
struct Block { char* base; size_t size; bool live; };
struct SimHeap {
    char* arena; size_t cap, top, prevTop;
    Vec<Block> blocks;
    int residue;                 // -1: natural bump; 0..72: every block lands in that bucket; 100+k: one of k buckets chosen per block
    Rng rng;
    long mallocCalls, reallocCalls, freeCalls, failMallocIn, failReallocIn;
    bool armedReallocOnly;      // the one-shot request-size check of a realloc op waits for the platform realloc (a bookkeeping node may be allocated first)
    bool reallocZeroFrees;      // realloc(p, 0) releases p and answers NULL (glibc) instead of handing out a zero-size block
    size_t userRequest;          // size of the user request in flight (0 = none): a platform request below it is refused
    bool undersized; size_t undersizedGot, undersizedWanted; bool armed; bool nodePassed; bool limitHit; int firedNull;      /* injected NULL answers since the operation under way began */
    bool dirty; bool active;
    long foreignFrees;
    char* watchFree; size_t watchSize, watchLeft; uint64_t watchPat; bool watchSeen;
    SimHeap() : arena(0), cap(0), top(0), prevTop(0), residue(-1), rng(1), mallocCalls(0), reallocCalls(0), freeCalls(0), failMallocIn(-1), failReallocIn(-1), userRequest(0), undersized(false), undersizedGot(0), undersizedWanted(0), armed(false), nodePassed(false), limitHit(false), firedNull(0), dirty(true), active(false), foreignFrees(0), watchFree(0), watchSize(0), watchLeft(0), watchPat(0), watchSeen(false) {}
    void init() {
        if (arena) return;
        cap = (size_t)512 << 20;
        static const uintptr_t tries[] = { 0x500000000000ULL, 0x510000000000ULL, 0x4f0000000000ULL, 0x520000000000ULL };
        for (size_t i = 0; i < 4 && !arena; i++) {
            void* p = mmap((void*)tries[i], cap, PROT_READ | PROT_WRITE, MAP_PRIVATE | MAP_ANONYMOUS | MAP_NORESERVE | MAP_FIXED_NOREPLACE, -1, 0);
            if (p != MAP_FAILED && (uintptr_t)p == tries[i]) arena = (char*)p;
            else if (p != MAP_FAILED) munmap(p, cap);
        }
        if (!arena) { fprintf(stderr, "heapsim: cannot map the fixed-address arena\n"); _Exit(2); }
        ASAN_POISON_MEMORY_REGION(arena, cap);      // from the first run on, every byte outside a live block is poisoned (a fresh process must see what a long-lived worker sees)
    }
    void reset(uint64_t seed, int residueMode, bool dirtyMem) {
        init();
        ASAN_POISON_MEMORY_REGION(arena, prevTop > top ? prevTop : top);
        if (top > prevTop) prevTop = top;
        top = 0; blocks.clear(); residue = residueMode; rng.reseed(seed);
        mallocCalls = reallocCalls = freeCalls = 0; failMallocIn = failReallocIn = -1; userRequest = 0; undersized = false; armed = false; limitHit = false; dirty = dirtyMem; foreignFrees = 0; reallocZeroFrees = false; armedReallocOnly = false;
    }
    bool owns(const void* p) const { return (const char*)p >= arena && (const char*)p < arena + cap; }
    Block* find(const void* p) { for (size_t i = blocks.size(); i-- > 0;) if (blocks[i].live && (const char*)p >= blocks[i].base && (const char*)p < blocks[i].base + (blocks[i].size ? blocks[i].size : 1)) return &blocks[i]; return 0; }
    Block* findBase(const void* p) { for (size_t i = blocks.size(); i-- > 0;) if (blocks[i].base == p && blocks[i].live) return &blocks[i]; return 0; }
    void* alloc(size_t n, bool countIt = true) {
        if (countIt) {
            mallocCalls++;
            if (failMallocIn == 0) { failMallocIn = -1; armed = false; firedNull++; fired("platform_malloc_null"); return 0; }
            if (failMallocIn > 0) failMallocIn--;
        }
        // One request of exactly the size of a bookkeeping node may come before the block's own request (the order of the two is the detector's business).
        if (armed && !armedReallocOnly && !nodePassed && n == sizeof(MemoryLeakDetectorNode) && n < userRequest) { nodePassed = true; }
        else if (armed && !armedReallocOnly) { armed = false; if (n < userRequest) { undersized = true; undersizedGot = n; undersizedWanted = userRequest; return 0; } }
        if (n > ((size_t)64 << 20) || top + n + 4096 > cap) { fired("platform_heap_limit"); limitHit = true; return 0; }
        uintptr_t a = ((uintptr_t)(arena + top) + 15) & ~(uintptr_t)15;
        a += 16;                                        // red zone between blocks
        int want = residue;
        if (residue >= 100) want = (int)(rng.below((uint64_t)(residue - 99)) * 7 % 73);
        if (want >= 0) { while ((int)(a % 73) != want) a += 16; fired("addr_collide"); }
        char* p = (char*)a;
        top = (size_t)(p - arena) + (n ? n : 1);
        ASAN_UNPOISON_MEMORY_REGION(p, n);
        if (dirty) memset(p, 0xA5, n);
        Block b; b.base = p; b.size = n; b.live = true; blocks.push_back(b);
        return p;
    }
    void release(void* p) {
        if (!p) return;
        freeCalls++;
        if (!owns(p)) { ::free(p); return; }
        Block* b = findBase(p);
        if (!b) { foreignFrees++; return; }
        if (watchFree && p == watchFree) { watchLeft = 0; for (size_t i = 0; i < watchSize; i++) { if (i == 4096 && watchSize > 4160) i = watchSize - 64; /* large blocks carry the pattern in their first 4096 and last 64 bytes */ if (watchPat != 0x25252525ULL && (unsigned char)b->base[i] == (unsigned char)(0x30 + ((watchPat * 7 + i * 13) % 64))) watchLeft++; } watchSeen = true; watchFree = 0; }
        if (dirty) memset(b->base, 0xDD, b->size);
        ASAN_POISON_MEMORY_REGION(b->base, b->size);
        b->live = false;
    }
    void* resize(void* p, size_t n) {
        reallocCalls++;
        if (failReallocIn == 0) { failReallocIn = -1; armed = false; firedNull++; fired("platform_realloc_null"); return 0; }
        if (failReallocIn > 0) failReallocIn--;
        if (!p) return alloc(n, false);
        Block* b = findBase(p);
        if (!b) { foreignFrees++; return 0; }
        if (n == 0 && reallocZeroFrees) { armed = false; release(p); fired("platform_realloc_zero_frees"); return 0; }
        size_t old = b->size;
        if (armed) { armed = false; if (n < userRequest) { undersized = true; undersizedGot = n; undersizedWanted = userRequest; return 0; } }
        void* q = alloc(n, false);
        if (!q) return 0;
        b = findBase(p);                                 // vector may have moved
        memcpy(q, p, old < n ? old : n);
        release(p); freeCalls--;
        return q;
    }
};
static SimHeap HEAP;
static void* (*realMalloc)(size_t); static void* (*realRealloc)(void*, size_t); static void (*realFree)(void*);
static void* (*realMemCpy)(void*, const void*, size_t); static int (*realVsn)(char*, size_t, const char*, va_list);
static void* heapMalloc(size_t n) { return HEAP.active ? HEAP.alloc(n) : realMalloc(n); }
static void* heapRealloc(void* p, size_t n) { return HEAP.active && (!p || HEAP.owns(p)) ? HEAP.resize(p, n) : realRealloc(p, n); }
static void heapFree(void* p) { if (HEAP.active && HEAP.owns(p)) HEAP.release(p); else realFree(p); }

// ------------------------------------------------------------------------------------------------ run state
struct Rec { Str first; Str full; };
struct RunCtx {
    RunResult* r; Vec<Rec> reports;       // texts handed to MemoryLeakFailure::fail since the last op began
    bool nullMemcpy;                      // a copy through NULL was attempted (strdup under out-of-memory)
    char* bufBase;                        // the detector's 4096-byte output buffer
    bool bufOverflow; Str bufOverflowDetail; size_t maxEnd;
    char* ssbBase;
    size_t freeSeamPatternLeft;           // C06: bytes still holding the caller's pattern when the block reached the free seam
    bool freeSeamChecked;
    char* watchFree; size_t watchSize; int watchSlotSeed;
};
static RunCtx CTX;

class RecReporter : public MemoryLeakFailure {
public:
    void fail(char* s) CPPUTEST_OVERRIDE {
        Rec r; r.full = s;
        // the buffer accumulates: the message of this failure is the last one
        const char* cats[] = { "Deallocating non-allocated memory\n", "Allocation/deallocation type mismatch\n", "Memory corruption (written out of bounds?)\n" };
        size_t best = Str::npos; int which = -1;
        for (int i = 0; i < 3; i++) { size_t p = r.full.rfind(cats[i]); if (p != Str::npos && (best == Str::npos || p > best)) { best = p; which = i; } }
        r.first = which >= 0 ? Str(cats[which]) : Str("?");
        CTX.reports.push_back(r);
    }
};

// the length of the fixed report buffer is the library's own constant, not a number this file assumes
static const size_t BUFLEN = (size_t)SimpleStringBuffer::SIMPLE_STRING_BUFFER_LEN;
static int vsnSeam(char* dest, size_t size, const char* fmt, va_list ap) {
    char* bases[2] = { CTX.bufBase, CTX.ssbBase };
    for (int i = 0; i < 2; i++) {
        char* base = bases[i];
        if (!base || dest < base || dest > base + BUFLEN) continue;
        static char* scratch = (char*)::malloc(4 * BUFLEN + 65536); const size_t scratchLen = 4 * BUFLEN + 65536;
        va_list cp; va_copy(cp, ap);
        int len = realVsn(scratch, scratchLen, fmt, cp);
        va_end(cp);
        if (len < 0) return len;
        size_t wouldWrite = size == 0 ? 0 : ((size_t)len + 1 < size ? (size_t)len + 1 : size);
        if (dest + wouldWrite > base + BUFLEN) {
            if (!CTX.bufOverflow) { CTX.bufOverflow = true; CTX.bufOverflowDetail = sfmt("vsnprintf(base+%zu, size=%zu) with %d bytes of text would write %zu bytes past the %zu-byte buffer", (size_t)(dest - base), size, len, (size_t)(dest + wouldWrite - (base + BUFLEN)), BUFLEN); }
            size_t room = (size_t)(base + BUFLEN - dest);
            if (room) { size_t n = (size_t)len < room - 1 ? (size_t)len : room - 1; memcpy(dest, scratch, n); dest[n] = 0; }
            return len;
        }
        if (wouldWrite) { size_t n = wouldWrite - 1; if (n > scratchLen - 1) n = scratchLen - 1; memcpy(dest, scratch, n); dest[n] = 0; if ((size_t)(dest + wouldWrite - base) > CTX.maxEnd) CTX.maxEnd = (size_t)(dest + wouldWrite - base); }
        return len;
    }
    return realVsn(dest, size, fmt, ap);
}
static void* memcpySeam(void* d, const void* s, size_t n) {
    if (!d || !s) { CTX.nullMemcpy = true; return d; }
    return realMemCpy(d, s, n);
}

// simulated allocator: records, can fail, can carry any name; used as "wrapper" with equal or different type name
class SimAllocator : public TestMemoryAllocator {
public:
    long failIn, failNodeIn; long allocs, frees; TestMemoryAllocator* forwardTo;
    SimAllocator(const char* n, const char* an, const char* fn) : TestMemoryAllocator(n, an, fn), failIn(-1), failNodeIn(-1), allocs(0), frees(0), forwardTo(0) {}
    char* alloc_memory(size_t size, const char* file, size_t line) CPPUTEST_OVERRIDE {
        allocs++;
        if (failIn == 0) { failIn = -1; fired("alloc_null"); return 0; }
        if (failIn > 0) failIn--;
        if (forwardTo) return forwardTo->alloc_memory(size, file, line);
        return (char*)heapMalloc(size);
    }
    void free_memory(char* memory, size_t size, const char* file, size_t line) CPPUTEST_OVERRIDE {
        frees++;
        if (forwardTo) { forwardTo->free_memory(memory, size, file, line); return; }
        heapFree(memory);
    }
    TestMemoryAllocator* actualAllocator() CPPUTEST_OVERRIDE { return forwardTo ? forwardTo->actualAllocator() : this; }
    // the separately allocated bookkeeping node can fail too (fault kind 3): the request must then fail cleanly
    char* allocMemoryLeakNode(size_t size) CPPUTEST_OVERRIDE {
        if (failNodeIn == 0) { failNodeIn = -1; fired("node_alloc_null"); return 0; }
        return (char*)(HEAP.active ? HEAP.alloc(size, false) : realMalloc(size));
    }
    void freeMemoryLeakNode(char* memory) CPPUTEST_OVERRIDE { heapFree(memory); }
};

static const char* const famAlloc[3] = { "new", "new []", "malloc" };
static const char* siteFile(int s) { static const char* const f[N_SITES] = { "siteA.c", "siteB.c", "siteA.c", "dir/siteC.cpp" }; return f[s % N_SITES]; }
static size_t siteLine(int s) { static const size_t l[N_SITES] = { 10, 20, 11, 10 }; return l[s % N_SITES]; }

// ------------------------------------------------------------------------------------------------ model
struct MBlock { bool live, tracked; char* p; size_t size; int family; int route; unsigned number; Str file; size_t line; int period; unsigned char stage; Str allocName, typeName; uint64_t pat; bool guardDirty; TestMemoryAllocator* allocator; unsigned char guard0[64]; /* the guard bytes as the detector wrote them, whatever its pattern is */ };
static const uint64_t PCT_SEED = 0x25252525ULL;      // blocks whose content is full of printf metacharacters (a dump must never use content as a format)
static unsigned char patByte(uint64_t seed, size_t i) { if (seed == PCT_SEED) return (unsigned char)"%s%n%d%%%s%x%n"[i % 14]; return (unsigned char)(0x30 + ((seed * 7 + i * 13) % 64)); }
static void fillPat(MBlock& b) { size_t n = b.size > 4096 ? 4096 : b.size; for (size_t i = 0; i < n; i++) b.p[i] = (char)patByte(b.pat, i); if (b.size > 4096) for (size_t i = b.size - 64; i < b.size; i++) b.p[i] = (char)patByte(b.pat, i); }
static bool checkPat(const MBlock& b, size_t upto, size_t* bad) {
    size_t n = upto > 4096 ? 4096 : upto;
    for (size_t i = 0; i < n; i++) if ((unsigned char)b.p[i] != patByte(b.pat, i)) { *bad = i; return false; }
    if (upto == b.size && b.size > 4096) for (size_t i = b.size - 64; i < b.size; i++) if ((unsigned char)b.p[i] != patByte(b.pat, i)) { *bad = i; return false; }
    return true;
}
static bool inPeriod(int nodePeriod, int q) { return q == mem_leak_period_all || nodePeriod == q || (nodePeriod != mem_leak_period_disabled && q == mem_leak_period_enabled); }

static Json sg(const char* k, const char* v) { Json j = Json::O(); j.set(k, Json::S(v)); return j; }
static Json sg2(const char* k, const char* v, const char* k2, const char* v2) { Json j = Json::O(); j.set(k, Json::S(v)); j.set(k2, Json::S(v2)); return j; }

// ---- the test that asks whether every designated failure happened. It is run the way the registry runs any test (runOneTest), so it starts unfailed
// whatever earlier histories of this process did; its test object is static (nothing of it is allocated through the tracked operators).
static FailableMemoryAllocator* g_askFailable = 0; static bool g_askAfterOwnFailure = false;
class AskDoneTest : public Utest {
public:
    void testBody() CPPUTEST_OVERRIDE {
        if (g_askAfterOwnFailure) { UtestShell* c = UtestShell::getCurrent(); c->addFailure(TestFailure(c, "hist.cpp", 2, SimpleString("the test's own failure"))); }
        g_askFailable->checkAllFailedAllocsWereDone();
    }
};
class AskDoneShell : public UtestShell {
public:
    Utest* t;
    AskDoneShell(Utest* t_) : UtestShell("heapsim", "asks_whether_all_failed_allocs_were_done", "hist.cpp", 1), t(t_) {}
    Utest* createTest() CPPUTEST_OVERRIDE { return t; }
    void destroyTest(Utest*) CPPUTEST_OVERRIDE {}
};
class SilentOutput : public TestOutput {
public:
    void printBuffer(const char*) CPPUTEST_OVERRIDE {}
    void flush() CPPUTEST_OVERRIDE {}
    void printFailure(const TestFailure&) CPPUTEST_OVERRIDE {}
};
static bool askWhetherAllFailedAllocsWereDone(FailableMemoryAllocator& failable, bool afterOwnFailure) {
    static AskDoneTest* test = new (::malloc(sizeof(AskDoneTest))) AskDoneTest();
    static AskDoneShell* shell = new (::malloc(sizeof(AskDoneShell))) AskDoneShell(test);
    static SilentOutput* out = new (::malloc(sizeof(SilentOutput))) SilentOutput();
    g_askFailable = &failable; g_askAfterOwnFailure = afterOwnFailure;
    TestResult res(*out);
    shell->runOneTest(NullTestPlugin::instance(), res);
    size_t own = afterOwnFailure ? 1 : 0;
    return res.getFailureCount() > own;
}

struct Engine : public vf::Engine {
    const char* name() const { return "heapsim"; }
#ifdef CPPUTEST_DISABLE_MEM_CORRUPTION_CHECK
    const char* variant() const { return "noguard"; }
#else
    const char* variant() const { return "asan"; }
#endif
    KindNameFn kindName() const { return hs::kindName; }
    KindFromNameFn kindFromName() const { return hs::kindFromName; }
    void initProcess() {
        installBasicSeams();
        realMalloc = PlatformSpecificMalloc; realRealloc = PlatformSpecificRealloc; realFree = PlatformSpecificFree; realMemCpy = PlatformSpecificMemCpy; realVsn = PlatformSpecificVSNprintf;
        PlatformSpecificMalloc = heapMalloc; PlatformSpecificRealloc = heapRealloc; PlatformSpecificFree = heapFree; PlatformSpecificMemCpy = memcpySeam; PlatformSpecificVSNprintf = vsnSeam;
        HEAP.init();
        MemoryLeakWarningPlugin::getGlobalDetector();      // the process-wide default detector must not live in the per-run arena
        NullTestPlugin::instance();      // (nor the framework's other function-local statics that a run would otherwise be the first to touch)
        // one out-of-memory round while the default malloc allocator is current: whatever the C-level switch keeps in its file statics from its first use
        // is then the same object in every process and before every run (a run's outcome must be a function of its own history)
        setCurrentMallocAllocatorToDefault(); cpputest_malloc_set_out_of_memory(); cpputest_malloc_set_not_out_of_memory(); setCurrentMallocAllocatorToDefault();        {   // how does a report say that entries were dropped? learned from one that must (see core/leakreport.h); if it says nothing, nothing is learned and every such report is a violation
            struct Quiet : public MemoryLeakFailure { void fail(char*) CPPUTEST_OVERRIDE {} } quiet;
            MemoryLeakDetector* cd = new (::malloc(sizeof(MemoryLeakDetector))) MemoryLeakDetector(&quiet); cd->enable();
            static char* blocks[400]; const char* f = "a_calibration_file_with_a_name_long_enough_to_fill_the_report_buffer_soon.c";
            for (int i = 0; i < 2; i++) blocks[i] = cd->allocMemory(defaultMallocAllocator(), 40, f, 7, true);
            Str small = cd->report(mem_leak_period_all);
            cd->startChecking();
            for (int i = 2; i < 400; i++) blocks[i] = cd->allocMemory(defaultMallocAllocator(), 40, f, 7, true);
            Str big = cd->report(mem_leak_period_all);
            learnDroppedNotice(small, big);
            for (int i = 0; i < 400; i++) cd->deallocMemory(defaultMallocAllocator(), blocks[i], f, 8, true);
            cd->~MemoryLeakDetector(); ::free(cd);
        }
    }

    // -------------------------------------------------------------------------------------------- generation
    static size_t boundarySize(Rng& r) {
        unsigned w = (unsigned)r.below(100);
        if (w < 40) return (size_t)r.range(0, 64);
        if (w < 60) return (size_t)r.range(0, 4096);
        if (w < 75) { size_t p = (size_t)1 << r.range(3, 20); return p + (size_t)r.range(0, 18) - 9; }
        if (w < 80) { size_t p = (size_t)1 << r.range(28, 40); return p + (size_t)r.range(0, 48) - 24; }
        if (w < 90) return SIZE_MAX - (size_t)r.below(r.chance(1, 2) ? 64 : 200);      // the top values, across the edge of any plausible overflow guard
        if (w < 95) return SIZE_MAX / 2 + (size_t)r.range(0, 40) - 20;
        return (size_t)r.range(0, 600);
    }
    void generate(uint64_t seed, const Str& profile, Desc& d) {
        Rng w(mix64(seed, 11)), f(mix64(seed, 12));
        Group H; H.tag = "hist";
        int line = 100;
        bool acc = profile == "accounting", snd = profile == "soundness", mis = profile == "misuse", dia = profile == "diagnostics", oom = profile == "oom";
        int residueMode = -1;
        if (acc || mis) { unsigned x = (unsigned)w.below(10); if (x < 3) residueMode = (int)w.below(73); else if (x < 5) residueMode = 100 + (int)w.range(2, 4); }
        d.p["residue"] = residueMode; d.p["dirty"] = w.chance(3, 4);
        d.p["threadsafe"] = (mis || acc || snd) && w.chance(1, 4);       // the thread-safe wrappers on one thread: same behaviour, other code path
        d.p["nothrow_trial"] = snd && f.chance(1, 40);    // the one fault combination with a known finding is tried in few runs only (a violating history stops where it fails)
        d.p["realloc0_frees"] = f.chance(1, 2);        // what the platform does with realloc(p, 0): glibc releases p and answers NULL
        d.p["fault_free"] = f.chance(1, 3);             // fault-free and fault-injecting configurations are separate sub-populations
        bool faultFree = d.pi("fault_free") != 0;
        int nOps = (int)w.small(1, acc ? 400 : (dia ? 200 : 120));
        int nSlots = (int)w.range(1, acc ? 48 : 12);
        if (acc && w.chance(1, 6)) nSlots = (int)w.range(100, 250);
        int longLoc = dia ? (w.chance(1, 12) ? (int)w.range(3000, 5000) : (int)w.range(1, 900)) : 0;      // sometimes a location string about as long as the report buffer
        Str longFile; if (dia) { longFile.assign((size_t)longLoc, 'p'); longFile += ".c"; }
        Str hugeFile; if (dia && w.chance(1, 30)) { hugeFile.assign((size_t)(w.chance(1, 3) ? w.range(126000, 131600) : w.range(60000, 66000)), 'h'); hugeFile += ".c"; }      // rarely, and for a few operations only: a location string around 2^16 or 2^17 characters
        if (oom) {                                         // install a failable allocator for one or all families
            int fams = (int)w.below(4);
            for (int k = 0; k < 3; k++) if (fams == 3 || fams == k) { Op o(H_WRAP); o.a = k; o.b = 4; H.ops.push_back(o); }
        }
        for (int i = 0; i < nOps; i++) {
            Op o; o.d = ++line;
            unsigned x = (unsigned)w.below(100);
            if (acc) {
                if (x < 38) { o.kind = H_ALLOC; o.a = (int64_t)w.below((uint64_t)nSlots); o.b = (int64_t)w.below(3); o.c = w.small(0, 200); o.phase = (int)w.below(3); o.s = siteFile((int)w.below(N_SITES)); }
                else if (x < 62) { o.kind = H_FREE; o.a = (int64_t)w.below((uint64_t)nSlots); o.c = w.chance(1, 3) ? w.range(1, 4) : 0; }
                else if (x < 70) { o.kind = H_REALLOC; o.a = (int64_t)w.below((uint64_t)nSlots); o.c = w.chance(1, 5) ? -1 : w.small(0, 200); o.s = siteFile((int)w.below(N_SITES)); }      // c = -1: to the block's current size
                else if (x < 82) { static const int ks[] = { H_ENABLE, H_DISABLE, H_START, H_STOP, H_MARK, H_STAGE_INC, H_STAGE_DEC }; o.kind = ks[w.below(7)]; if (o.kind == H_STAGE_INC && w.chance(1, 6)) o.a = w.range(1, 600); }      // a > 0: a round trip of a further stages (past the 8-bit range) and back, nothing in between
                else if (x < 85) o.kind = H_STAGE_FREE;
                else if (x < 88) { o.kind = H_CLEAR; o.a = (int64_t)w.below(4); }
                else if (x < 96) { o.kind = H_QUERY; o.a = (int64_t)w.below(4); o.b = (int64_t)w.chance(1, 3); }
                else if (x < 97) { o.kind = H_MODE; o.a = (int64_t)w.below(3); }
                else if (!faultFree) { if (w.chance(1, 2)) { o.kind = H_BADFREE; o.a = w.range(1, 4); o.b = (int64_t)w.below(3); o.c = (int64_t)w.below((uint64_t)nSlots); } else { o.kind = H_FAULT; unsigned z = (unsigned)w.below(5); o.a = z < 2 ? 0 : (z < 4 ? 2 : 3); o.b = (int64_t)w.below(3); if (o.a == 0 && w.chance(1, 3)) o.c = w.range(1, 3); } }      // allocator returns NULL, or the platform realloc fails: the old block keeps its period, stage and number
                else o.kind = H_QUERY;
            } else if (snd) {
                if (x < 35) { o.kind = H_ALLOC; o.a = (int64_t)w.below((uint64_t)nSlots); o.b = (int64_t)w.below(3); o.c = (int64_t)boundarySize(w); o.phase = 2; o.s = siteFile((int)w.below(N_SITES)); o.s2 = w.chance(1, 3) ? "nothrow" : ""; }
                else if (x < 45) { o.kind = H_CALLOC; o.a = (int64_t)w.below((uint64_t)nSlots);
                    if (w.chance(1, 2)) { o.b = w.small(0, 40); o.c = w.small(0, 40); }
                    else { static const uint64_t ns[] = { 2, 3, 4, 8, 16, 256, 65536, 4294967296ULL, 1ULL << 33, 1ULL << 62 }; uint64_t n = ns[w.below(10)]; uint64_t tgt = w.chance(1, 2) ? 0 : (1ULL << 63); uint64_t q = (tgt - 1) / n + (uint64_t)w.range(-2, 3); if (tgt == 0) q = (UINT64_MAX / n) + (uint64_t)w.range(-1, 2); o.b = (int64_t)n; o.c = (int64_t)q; } }
                else if (x < 55) { o.kind = H_STRDUP; o.a = (int64_t)w.below((uint64_t)nSlots); o.c = w.small(0, 300); o.b = w.chance(1, 2) ? -1 : (int64_t)(w.chance(1, 2) ? (uint64_t)o.c + (uint64_t)w.range(0, 3) - 1 : (uint64_t)w.small(0, 400)); if (o.b < -1) o.b = 0; if (w.chance(1, 8)) o.b = -2 - (int64_t)w.below(4); }      // n = SIZE_MAX, SIZE_MAX-1, ...
                else if (x < 68) { o.kind = H_REALLOC; o.a = (int64_t)w.below((uint64_t)nSlots); o.c = (int64_t)(w.chance(4, 5) ? (size_t)w.small(0, 3000) : boundarySize(w)); }
                else if (x < 88) { o.kind = H_FREE; o.a = (int64_t)w.below((uint64_t)nSlots); o.c = w.chance(1, 3) ? w.range(1, 4) : 0; }
                else if (x < 91) { o.kind = H_QUERY; o.a = (int64_t)w.below(4); }
                else if (x < 92) { o.kind = H_MODE; o.a = (int64_t)w.below(3); }
                else if (!faultFree && w.chance(1, 6)) {      // the library's accounting decorator over an allocator whose next request or the one after fails (the decorator asks twice per block)
                    Op fo(H_FAULT); fo.d = o.d; fo.a = 0; fo.b = (int64_t)w.below(3); fo.c = (int64_t)w.below(3); H.ops.push_back(fo);
                    o.kind = H_WRAP; o.a = fo.b; o.b = 6; }
                else if (!faultFree) { o.kind = H_FAULT; o.a = (int64_t)w.below(4); o.b = o.a == 3 && w.chance(2, 3) ? 2 : (int64_t)w.below(3); if (o.a == 0 && w.chance(1, 3)) o.c = w.range(1, 3); }
                else o.kind = H_QUERY;
            } else if (mis) {
                if (x < 30) { o.kind = H_ALLOC; o.a = (int64_t)w.below((uint64_t)nSlots); o.b = (int64_t)w.below(3); o.c = w.chance(3, 4) ? w.range(0, 64) : w.range(0, 600); if (w.chance(1, 15)) o.c = w.range(4000, 20000); o.phase = (int)w.below(3); o.s = siteFile((int)w.below(N_SITES)); }
                else if (x < 55) { o.kind = H_FLIP; o.a = (int64_t)w.below((uint64_t)nSlots); unsigned rg = (unsigned)w.below(10); o.b = rg < 3 ? 0 : (rg < 8 ? 1 : 2); o.c = (int64_t)w.below(600); o.d = (int64_t)w.below(256); if (w.chance(1, 8)) o.d = w.chance(1, 2) ? -1 : -2; }      // -1: the value the byte holds now, -2: the value the detector wrote there
                else if (x < 78) { o.kind = H_FREE; o.a = (int64_t)w.below((uint64_t)nSlots); o.b = w.chance(2, 3) ? 0 : w.range(1, 3); o.c = w.chance(1, 3) ? w.range(1, 4) : 0; }
                else if (x < 84) { o.kind = H_BADFREE; o.a = (int64_t)w.below(5); o.b = (int64_t)w.below(3); o.c = (int64_t)w.below(600); o.phase = (int)w.below(3) == 2 ? 2 : 0; }
                else if (x < 87) { o.kind = H_TYPECHECK; o.a = (int64_t)w.below(2); }
                else if (x < 88) { if (w.chance(1, 2)) o.kind = H_STASH; else { o.kind = H_MODE; o.a = (int64_t)w.below(3); } }
                else if (x < 94) { o.kind = H_WRAP; o.a = (int64_t)w.below(3); static const int wk[] = { 0, 0, 1, 2, 3, 5, 5, 6, 6 }; o.b = wk[w.below(9)]; }
                else if (x < 97) { o.kind = H_REALLOC; o.a = (int64_t)w.below((uint64_t)nSlots); o.c = w.small(0, 100); if (w.chance(1, 8)) o.c = (int64_t)(SIZE_MAX - (size_t)w.below(200)); else if (w.chance(1, 5)) o.c = -1; }      // some refused (overflowing) requests: the block must stay what it was; some requests for the size the block already has
                else { o.kind = H_QUERY; o.a = (int64_t)w.below(4); }
            } else if (dia) {
                if (x < 30) { o.kind = H_BADFREE; o.a = w.range(1, 4); o.b = (int64_t)w.below(3); o.c = (int64_t)w.below(600); o.s = w.chance(2, 3) ? longFile : Str("s.c"); if (!hugeFile.empty() && w.chance(1, 12)) o.s = hugeFile; }
                else if (x < 60) { o.kind = H_ALLOC; o.a = (int64_t)w.below(N_SLOTS); o.b = (int64_t)w.below(3); o.c = w.chance(4, 5) ? w.small(0, 64) : w.range(0, 5000); o.phase = (int)w.below(3); o.s = w.chance(1, 2) ? longFile : Str("a.c"); if (!hugeFile.empty() && w.chance(1, 12)) o.s = hugeFile; }
                else if (x < 66) { o.kind = H_FREE; o.a = (int64_t)w.below(N_SLOTS); o.c = w.chance(1, 3) ? w.range(1, 4) : 0; }
                else if (x < 72) { o.kind = H_START; }
                else if (x < 88) { o.kind = H_REPORT; o.a = (int64_t)w.below(4); }
                else if (x < 90) { static const int ks[] = { H_ENABLE, H_STOP, H_MARK }; o.kind = ks[w.below(3)]; }
                else { o.kind = H_SSB; o.a = (int64_t)w.below(5); o.b = o.a == 2 ? (int64_t)w.range(0, 5000) : w.small(0, 700); }
            } else if (oom) {
                if (x < 45) { o.kind = H_ALLOC; o.a = (int64_t)w.below((uint64_t)nSlots); o.b = (int64_t)w.below(3); o.c = w.small(1, 64); o.phase = 2; int s = (int)w.below(N_SITES); o.s = siteFile(s); o.d = (int64_t)siteLine(s); o.s2 = w.chance(1, 3) ? "nothrow" : ""; }
                else if (x < 57) { o.kind = H_FREE; o.a = (int64_t)w.below((uint64_t)nSlots); o.c = w.chance(1, 3) ? w.range(1, 4) : 0; }
                else if (x < 60) { o.kind = H_REALLOC; o.a = (int64_t)w.below((uint64_t)nSlots); o.c = w.small(1, 64); int s = (int)w.below(N_SITES); o.s = siteFile(s); o.d = (int64_t)siteLine(s); }      // also while out of memory is simulated: NULL, the old block untouched, no report
                else if (x < 70 && !faultFree) { o.kind = H_DESIGNATE_N; o.a = w.range(1, 12); }
                else if (x < 82 && !faultFree) { o.kind = H_DESIGNATE_AT; o.a = w.range(1, 4); o.b = (int64_t)w.below(N_SITES); }
                else if (x < 86) { o.kind = H_CHECK_DONE; o.a = (int64_t)w.chance(1, 3); }      // a: the test that asks has a failure of its own already
                else if (x < 89) o.kind = H_CLEAR_FAILS;
                else if (x < 92 && !faultFree) { if (w.chance(1, 2)) { o.kind = H_OOM_COUNTDOWN; o.a = (int64_t)w.below(21); if (w.chance(1, 8)) { static const int neg[] = { -1, -2, -3, -10, -1000 }; o.a = neg[w.below(5)]; } } else o.kind = H_OOM_SET; }      // a negative count means: no countdown
                else if (x < 93) o.kind = H_OOM_CLEAR;
                else if (x < 94) { if (w.chance(1, 2)) o.kind = H_COUNT_RESET; else { o.kind = H_MODE; o.a = 2; } }      // ... or the overloads change between their plain and their thread-safe form: the designations hold for both
                else if (x < 97) { o.kind = H_STRDUP; o.a = (int64_t)w.below((uint64_t)nSlots); o.c = w.small(0, 40); o.b = w.chance(1, 2) ? -1 : w.small(0, 50); int s = (int)w.below(N_SITES); o.s = siteFile(s); o.d = (int64_t)siteLine(s); }
                else { o.kind = H_CALLOC; o.a = (int64_t)w.below((uint64_t)nSlots); o.b = w.small(1, 8); o.c = w.small(1, 8); int s = (int)w.below(N_SITES); o.s = siteFile(s); o.d = (int64_t)siteLine(s);
                    if (w.chance(1, 6)) {      // a product that does not fit: the C library's calloc answers NULL, whatever the factors look like one by one
                        static const uint64_t pairs[][2] = { { (uint64_t)1 << 63, 2 }, { ((uint64_t)1 << 61) + 2, 8 }, { 16, ((uint64_t)1 << 60) + 2 }, { (uint64_t)1 << 32, (uint64_t)1 << 32 }, { (uint64_t)1 << 33, ((uint64_t)1 << 31) + 1 }, { 3, 0x5555555555555556ULL } };
                        size_t k = (size_t)w.below(6); o.b = (int64_t)pairs[k][0]; o.c = (int64_t)pairs[k][1]; } }
            }
            if (o.kind != H_NONE) H.ops.push_back(o);
        }
        if (dia && w.chance(1, 6)) {      // as a run of tests does: k tests that leak nothing, each asking for its report on a cleared buffer, then one that leaks enough to overflow the report
            Vec<Op> pre; int k = (int)w.range(0, 34), m = (int)w.range(20, 70);
            for (int i = 0; i < k; i++) { Op a(H_START); pre.push_back(a); Op b(H_REPORT); b.a = 3; pre.push_back(b); }
            { Op a(H_START); pre.push_back(a); }
            for (int i = 0; i < m && i < N_SLOTS; i++) { Op o(H_ALLOC); o.a = i; o.b = (int64_t)w.below(3); o.c = w.small(1, 64); o.phase = (int)w.below(3); o.s = longFile; pre.push_back(o); }
            { Op b(H_REPORT); b.a = 3; pre.push_back(b); }
            H.ops.insert(H.ops.begin(), pre.begin(), pre.end());
            d.p["clean_reports_then_overflow"] = k;
        }
        d.groups.push_back(H);
    }

    // -------------------------------------------------------------------------------------------- execution
    struct World {
        MemoryLeakDetector* det; RecReporter* rep; const Desc* d; RunResult* r;
        MBlock slots[N_SLOTS];
        int period; unsigned char stage; unsigned seq; bool typecheck;
        TestMemoryAllocator* famAllocator[3];     // allocators used on the direct route (and installed as current on the global route)
        bool threadsafeNow;
        Vec<SimAllocator*> wrappers; FailableMemoryAllocator* failable;
        Vec<AccountingTestMemoryAllocator*> acct; Vec<TestMemoryAllocator*> acctBase; MemoryAccountant* accountant;     // real accounting decorators (may be nested) and, per decorator, the family allocator the model says is underneath
        Vec<char*> stale;
        // C15 model
        struct Desig { bool byLoc; int n; Str file; size_t line; int seen; };
        Vec<Desig> desig; int failIndex; bool failableFor[3];
        int oomCountdown; bool oomAll;             // C level
        Vec<char*> untrackedHeap;
        Str lastReportText; bool lastReportValid;  // what the buffer held after the last report (valid until something else is appended or it is cleared)
        bool diaCleanReport;                       // buffer cleared and nothing added since
        size_t diaMisuse;
    };

    static const char* actualName(TestMemoryAllocator* a) { return a->actualAllocator()->name(); }
    // which allocator really serves a (possibly decorated) allocator, by the model: the library's own accounting decorators are looked up in the
    // simulator's table (what the history installed), not asked
    static TestMemoryAllocator* modelActual(World& W, TestMemoryAllocator* a) { for (size_t i = 0; i < W.acct.size(); i++) if (W.acct[i] == a) return W.acctBase[i]; return a->actualAllocator(); }

    void fail(World& W, const char* prop, const char* oracle, const Json& sig, const Str& detail) { W.r->fail(prop, oracle, sig, detail); }
    void fail(World& W, const char* prop, const char* oracle, const Str& detail) { W.r->fail(prop, oracle, Json::O(), detail); }

    // after every operation: totals of all four periods, live patterns, report buffers
    void invariants(World& W, size_t opIdx, const char* opName) {
        size_t want[4] = { 0, 0, 0, 0 };
        for (int i = 0; i < N_SLOTS; i++) if (W.slots[i].live && W.slots[i].tracked) for (int q = 0; q < 4; q++) if (inPeriod(W.slots[i].period, q)) want[q]++;
        for (int q = 0; q < 4; q++) {
            size_t got = W.det->totalMemoryLeaks((MemLeakPeriod)q);
            if (got != want[q]) { fail(W, "C04", "totals", sg("after", opName), sfmt("after op %zu (%s): totalMemoryLeaks(period %d) = %zu, model %zu", opIdx, opName, q, got, want[q])); break; }
        }
        if (!W.r->viols.empty()) return;          // the accounting is already known to be off: the model's blocks may no longer exist
        for (int i = 0; i < N_SLOTS; i++) if (W.slots[i].live && W.slots[i].p) {
            size_t bad = 0;
            if (!HEAP.find(W.slots[i].p)) { fail(W, W.slots[i].tracked ? "C04" : "C05", "released_while_held", sg("after", opName), sfmt("after op %zu (%s): the memory of the block held in slot %d (size %zu) was returned to the platform", opIdx, opName, i, W.slots[i].size)); W.slots[i].live = false; continue; }
            if (!checkPat(W.slots[i], W.slots[i].size, &bad)) { fail(W, "C05", "pattern_intact", sg("after", opName), sfmt("after op %zu (%s): byte %zu of live block in slot %d (size %zu) was overwritten", opIdx, opName, bad, i, W.slots[i].size)); W.slots[i].live = false; }
        }
        if (HEAP.foreignFrees) { fail(W, "C06", "platform_free_of_unknown_address", sg("after", opName), sfmt("after op %zu (%s): releasing or reallocating a block handed the platform %ld address(es) it had not served (glibc aborts on that)", opIdx, opName, HEAP.foreignFrees)); fail(W, "C05", "platform_free_of_unknown_address", sg("after", opName), sfmt("after op %zu (%s): the platform free/realloc was handed %ld address(es) that are not the start of a block it had served and not yet got back", opIdx, opName, HEAP.foreignFrees)); HEAP.foreignFrees = 0; }
        if (CTX.bufOverflow) { fail(W, "C14", "buffer_bounds", sg("after", opName), sfmt("after op %zu (%s): %s", opIdx, opName, CTX.bufOverflowDetail.c_str())); CTX.bufOverflow = false; }
        if (HEAP.undersized) { fail(W, "C05", "platform_request_too_small", sg("after", opName), sfmt("op %zu (%s): user asked for %zu bytes, the platform was asked for %zu", opIdx, opName, HEAP.undersizedWanted, HEAP.undersizedGot)); HEAP.undersized = false; }
        if (CTX.nullMemcpy) { fail(W, strcmp(opName, "strdup") == 0 && W.d->profile == "oom" ? "C15" : "C05", "copy_through_null", sg("op", opName), sfmt("op %zu (%s): memory was copied through a NULL pointer (failed allocation not checked)", opIdx, opName)); CTX.nullMemcpy = false; }
    }

    void checkNewBlock(World& W, size_t opIdx, const char* opName, char* p, size_t size) {
        if (((uintptr_t)p & 15) != 0) fail(W, "C05", "alignment", sg("op", opName), sfmt("op %zu: %p is not 16-byte aligned", opIdx, (void*)p));
        Block* b = HEAP.find(p);
        if (!b || p + size > b->base + b->size) fail(W, "C05", "containment", sg("op", opName), sfmt("op %zu: %zu user bytes at offset %ld do not fit the platform block of %zu bytes", opIdx, size, b ? (long)(p - b->base) : -1L, b ? b->size : 0));
        for (int i = 0; i < N_SLOTS; i++) if (W.slots[i].live && W.slots[i].p && W.slots[i].p != p) {
            char* q = W.slots[i].p; size_t qs = W.slots[i].size;
            if (p < q + qs && q < p + size) { fail(W, "C05", "disjoint", sg("op", opName), sfmt("op %zu: new block overlaps live block of slot %d", opIdx, i)); break; }
        }
    }

    int expectedCategory(World& W, MBlock& b, TestMemoryAllocator* freeing) {      // -1 none, 1 mismatch, 2 corruption
        TestMemoryAllocator* aa = modelActual(W, b.allocator); TestMemoryAllocator* fa = modelActual(W, freeing);
        bool match = aa == fa || !W.typecheck || strcmp(fa->name(), aa->name()) == 0;
        if (!match) return 1;
        if (b.guardDirty && GUARD) return 2;
        return -1;
    }
    void expectReports(World& W, size_t opIdx, const char* opName, int category /* -1 none, 0 non-allocated, 1 mismatch, 2 corruption */) {
        static const char* const cats[3] = { "Deallocating non-allocated memory\n", "Allocation/deallocation type mismatch\n", "Memory corruption (written out of bounds?)\n" };
        static const char* const short_[3] = { "non-allocated", "type mismatch", "corruption" };
        if (category < 0) { if (!CTX.reports.empty()) fail(W, "C06", "unexpected_report", sg2("op", opName, "got", CTX.reports[0].first.c_str()), sfmt("op %zu (%s): reported %s although nothing was misused", opIdx, opName, Json::S(CTX.reports[0].first).dump().c_str())); }
        else if (CTX.reports.size() != 1 || (CTX.reports[0].first != cats[category] && !(W.d->profile == "diagnostics" && CTX.reports[0].first == "?"))) fail(W, "C06", "report_category", sg2("want", short_[category], "got", CTX.reports.empty() ? "nothing" : CTX.reports[0].first.c_str()), sfmt("op %zu (%s): expected one '%s' report, got %zu (%s)", opIdx, opName, short_[category], CTX.reports.size(), CTX.reports.empty() ? "" : Json::S(CTX.reports[0].first).dump().c_str()));
        if (!CTX.reports.empty()) { W.diaMisuse += CTX.reports.size(); W.diaCleanReport = false; W.lastReportValid = false; }
        CTX.reports.clear();
    }

    void parseReport(World& W, size_t opIdx, const char* text, int q, bool cleanBuffer) {
        // model set for the queried period
        Vec<Str> want; size_t total = 0;
        for (int i = 0; i < N_SLOTS; i++) if (W.slots[i].live && W.slots[i].tracked && inPeriod(W.slots[i].period, q)) { total++; want.push_back(sfmt("%u|%zu|%s|%zu|%s", W.slots[i].number, W.slots[i].size, W.slots[i].file.c_str(), W.slots[i].line, W.slots[i].allocName.c_str())); }
        Str t = text;
        if (strlen(text) > BUFLEN - 1) fail(W, "C14", "terminated", sfmt("report text is %zu bytes long", strlen(text)));
        if (!cleanBuffer) return;
        bool none = t.find("No memory leaks were detected.") != Str::npos;
        if (none != (total == 0)) { fail(W, "C04", "report_no_leaks", sg("what", total ? "says no leaks" : "lists leaks"), sfmt("op %zu: report for period %d says '%s' but the model holds %zu blocks", opIdx, q, none ? "No memory leaks" : "leaks", total)); return; }
        if (total == 0) return;
        Vec<Str> got; Vec<LeakEntry> ents; long statedTotal = -1; parseLeakReport(t, ents, statedTotal);
        for (size_t i = 0; i < ents.size(); i++) if (ents[i].complete) got.push_back(sfmt("%u|%lu|%s|%ld|%s", ents[i].num, ents[i].size, ents[i].file.c_str(), ents[i].line, ents[i].type.c_str()));
        bool says = saysEntriesWereDropped(t);      // (by the sentence learned in initProcess)
        bool truncated = got.size() < total;      // entries were dropped: judged by counting, not by wording
        std::sort(want.begin(), want.end()); std::sort(got.begin(), got.end());
        if (truncated) probe("report_truncated"); else probe("report_complete");
        if ((!truncated || !says) && want != got) {      // a report that does not say it is incomplete must be complete
            Str a, b; for (size_t i = 0; i < got.size() && i < 6; i++) a += got[i] + "; "; for (size_t i = 0; i < want.size() && i < 6; i++) b += want[i] + "; ";
            fail(W, "C04", "report_entries", sg("what", got.size() < want.size() ? "entry missing" : (got.size() > want.size() ? "extra entry" : "entry differs")), sfmt("op %zu: report(period %d) lists %zu entries {%s}, model %zu {%s}", opIdx, q, got.size(), a.c_str(), want.size(), b.c_str()));
        }
        if (truncated) {
            for (size_t i = 0; i < got.size(); i++) if (!std::binary_search(want.begin(), want.end(), got[i])) {
                // the last listed entry may be cut in the middle
                if (i + 1 == got.size() || true) { bool prefix = false; for (size_t k = 0; k < want.size(); k++) if (want[k].compare(0, got[i].size(), got[i]) == 0) prefix = true; if (prefix) continue; }
                fail(W, "C04", "report_entries", sg("what", "listed entry not in model (truncated report)"), sfmt("op %zu: %s", opIdx, got[i].c_str())); break;
            }
        }
        size_t tp = statedTotal < 0 ? Str::npos : 0;
        long tot = statedTotal;
        if (tot != (long)total) fail(W, "C04", "report_total", sg("what", tp == Str::npos ? "footer missing" : "wrong total"), sfmt("op %zu: report states %ld leaks, model %zu", opIdx, tot, total));
        if (tot != (long)total) fail(W, "C14", "true_total", sg("what", tp == Str::npos ? "footer missing" : "wrong total"), sfmt("op %zu: report states %ld leaks, model %zu (listed %zu, truncated %d)", opIdx, tot, total, got.size(), (int)truncated));
        if (truncated && !says) fail(W, "C14", "too_many_notice", sg("what", "entries dropped without notice"), sfmt("op %zu: %zu of %zu listed", opIdx, got.size(), total));
    }

    void clearBuffer(World& W) {      // startChecking() is the only way to clear the message buffer; the period is restored at once
        if (W.d->profile == "diagnostics") return;
        W.lastReportText.clear(); W.lastReportValid = true;
        W.det->startChecking();
        if (W.period == mem_leak_period_disabled) W.det->disable(); else if (W.period == mem_leak_period_enabled) W.det->enable();
    }
    TestMemoryAllocator* currentFor(int fam) { return fam == 0 ? getCurrentNewAllocator() : (fam == 1 ? getCurrentNewArrayAllocator() : getCurrentMallocAllocator()); }
    // the allocator the model attributes to a family on the global route: the one the history installed for it. Only the oom profile, whose
    // C-level out-of-memory switch replaces the malloc allocator by design, follows whatever is current.
    TestMemoryAllocator* modelFor(World& W, int fam) { return W.famAllocator[fam]; }      // what the history installed (never what the library says is current)

    // C15 model: does allocation (by allocator `fam`'s current allocator being the failable one) fail?
    bool modelFailable(World& W, const char* file, size_t line) {
        W.failIndex++;
        bool failNow = false;
        for (size_t i = 0; i < W.desig.size(); i++) if (W.desig[i].byLoc && W.desig[i].file == file && W.desig[i].line == line) W.desig[i].seen++;
        for (size_t i = 0; i < W.desig.size();) {
            World::Desig& g = W.desig[i];
            bool hit = g.byLoc ? (g.file == file && g.line == line && g.seen == g.n) : (W.failIndex == g.n);
            if (hit) { failNow = true; W.desig.erase(W.desig.begin() + (long)i); } else i++;
        }
        return failNow;
    }
    bool cLevelFails(World& W) {      // cpputest_malloc_location: countdown then allocate
        if (W.oomCountdown > 0) { W.oomCountdown--; if (W.oomCountdown == 0) W.oomAll = true; }
        return W.oomAll;
    }

    void execute(const Desc& d, RunResult& r) {
        Hash h;
        CTX = RunCtx(); CTX.r = &r;
        HEAP.reset(mix64(d.seed, 99), (int)d.pi("residue", -1), d.pi("dirty", 1) != 0);
        HEAP.reallocZeroFrees = d.pi("realloc0_frees", 0) != 0;
        HEAP.active = true;
        simIO().reset();
        MemoryLeakDetector* oldDet = MemoryLeakWarningPlugin::getGlobalDetector();
        MemoryLeakFailure* oldRep = MemoryLeakWarningPlugin::getGlobalFailureReporter();
        MemoryLeakWarningPlugin::turnOnDefaultNotThreadSafeNewDeleteOverloads();
        RecReporter rep;
        {
        MemoryLeakDetector det(&rep);
        MemoryLeakWarningPlugin::setGlobalDetector(&det, &rep);
        SimpleStringBuffer ssb; CTX.ssbBase = ssb.toString();
        World W; W.det = &det; W.rep = &rep; W.d = &d; W.r = &r;
        for (int i = 0; i < N_SLOTS; i++) { W.slots[i].live = false; W.slots[i].p = 0; W.slots[i].tracked = false; }
        W.period = mem_leak_period_disabled; W.stage = 0; W.seq = 1; W.typecheck = true; W.failable = 0; W.failIndex = 0; W.oomCountdown = -1; W.oomAll = false;
        W.failableFor[0] = W.failableFor[1] = W.failableFor[2] = false; W.diaCleanReport = true; W.diaMisuse = 0; W.lastReportValid = true;
        W.accountant = 0;
        W.famAllocator[0] = defaultNewAllocator(); W.famAllocator[1] = defaultNewArrayAllocator(); W.famAllocator[2] = defaultMallocAllocator();
        GlobalMemoryAllocatorStash stash; stash.save();
        CTX.bufBase = const_cast<char*>(det.report(mem_leak_period_checking));   // learn the buffer's address, then clear it
        det.startChecking(); det.disable();
        FailableMemoryAllocator failable("Failable", "falloc", "ffree");
        W.threadsafeNow = d.pi("threadsafe") != 0;
        if (d.pi("threadsafe")) { MemoryLeakWarningPlugin::turnOnThreadSafeNewDeleteOverloads(); fired("threadsafe_overloads_single_thread"); }

        static const Group noHistory;
        const Group& H = d.groups.empty() ? noHistory : d.groups[0];
        bool isAcc = d.profile == "accounting", isDia = d.profile == "diagnostics", isOom = d.profile == "oom", isSnd = d.profile == "soundness", isMis = d.profile == "misuse";
        (void)isAcc; (void)isSnd; (void)isMis;
        for (size_t oi = 0; oi < H.ops.size() && !r.hasWanted(); oi++) {      // the history stops at the first violation of a property that was asked about: later differences would be its consequences
            const Op& o = H.ops[oi];
            const char* on = hs::kindName(o.kind);
            CTX.reports.clear();
            h.ev(on, (uint64_t)o.a, (uint64_t)o.b, (uint64_t)o.c);
            MBlock& S = W.slots[(size_t)o.a % N_SLOTS];
            const char* file = o.s.empty() ? "h.c" : o.s.c_str(); size_t line = (size_t)o.d;
            bool platformFaultArmed = HEAP.failMallocIn >= 0; HEAP.limitHit = false;
            try {
            switch (o.kind) {
            case H_ALLOC: case H_CALLOC: case H_STRDUP: {
                if (S.live) break;
                int fam = o.kind == H_ALLOC ? (int)(o.b % 3) : 2; int route = o.kind == H_ALLOC ? o.phase : 2;
                size_t size = (size_t)o.c;
                Str src;
                if (o.kind == H_CALLOC) size = (size_t)o.b * (size_t)o.c;
                if (o.kind == H_STRDUP) { src.assign((size_t)o.c, 'x'); for (size_t k = 0; k < src.size(); k++) src[k] = (char)('a' + k % 23); size_t nArg = o.b <= -2 ? SIZE_MAX - (size_t)(-2 - o.b) : (size_t)o.b; size = o.b == -1 ? src.size() + 1 : (nArg < src.size() ? nArg : src.size()) + 1; }
                bool overflowingCalloc = o.kind == H_CALLOC && o.b != 0 && (size_t)o.c > SIZE_MAX / (size_t)o.b;
                TestMemoryAllocator* alloc = route == 2 ? modelFor(W, fam) : W.famAllocator[fam];
                size_t overhead = GUARD + 8 + sizeof(MemoryLeakDetectorNode);
                if (o.kind == H_ALLOC && route == 2 && fam < 2 && o.s2 == "nothrow" && HEAP.failMallocIn == 0 && d.pi("nothrow_trial") && size <= ((size_t)48 << 20) && size <= SIZE_MAX - overhead
                    && alloc == (fam == 0 ? defaultNewAllocator() : defaultNewArrayAllocator())) {
                    // nothrow new x a platform malloc that answers NULL, under the default allocators: tried in a forked child, because the known
                    // outcome on this tree ends the process (known_findings.json: C05-nothrow-new-terminates)
                    fired("nothrow_new_with_failing_platform");
                    fflush(0);
                    pid_t pid = fork();
                    if (pid == 0) {
                        int dn = open("/dev/null", O_WRONLY); if (dn >= 0) dup2(dn, 2);
                        alarm(10);
                        char* q = fam == 0 ? (char*)::operator new(size, std::nothrow) : (char*)::operator new[](size, std::nothrow);
                        _exit(q ? 4 : 0);
                    }
                    int st = 0; while (pid > 0 && waitpid(pid, &st, 0) < 0 && errno == EINTR) {}
                    HEAP.failMallocIn = -1;                      // the fault is consumed by the trial
                    if (pid > 0 && WIFSIGNALED(st)) fail(W, "C05", "clean_failure", sg("what", "process terminated inside a nothrow operator new"), sfmt("op %zu: new (std::nothrow) of %zu bytes with a platform malloc that answers NULL ended the process with signal %d", oi, size, WTERMSIG(st)));
                    else if (pid > 0 && WIFEXITED(st) && WEXITSTATUS(st) == 4) fail(W, "C05", "injected_failure", sg2("op", on, "what", "platform malloc failed but a block was returned"), sfmt("op %zu", oi));
                    break;
                }
                bool nothrowUsed = o.kind == H_ALLOC && route == 2 && fam < 2 && o.s2 == "nothrow" && HEAP.failMallocIn < 0 && size <= ((size_t)48 << 20) && size <= SIZE_MAX - overhead;
                if (nothrowUsed) { file = "<unknown>"; line = 0; }      // the nothrow forms carry no location
                // does the model expect a failure?
                bool expectNull = false, lenient = false;
                bool cOom = false;
                // (a calloc whose product does not fit is refused before it becomes an allocation: neither the countdown nor the failable allocator gets to see it)
                if (route == 2 && fam == 2 && !overflowingCalloc) { if (cLevelFails(W)) { expectNull = true; cOom = true; } }   // the countdown runs before the allocator is consulted
                if (alloc == &failable && !cOom && !overflowingCalloc) expectNull = modelFailable(W, file, line) || expectNull;
                for (size_t k = 0; k < W.wrappers.size(); k++) if (W.wrappers[k] == alloc->actualAllocator() || W.wrappers[k] == alloc) { if (W.wrappers[k]->failIn == 0) expectNull = true; else if (W.wrappers[k]->failIn > 0 && !W.acct.empty()) lenient = true; }      // (an accounting decorator asks the allocator underneath twice per block: which of the two requests fails is its business, the outcome must be clean either way)
                bool sepNode = GUARD == 0 || route == 1 || (route == 2 && fam == 2);      // the node is a separate allocation: no-guard build, asked for, or the malloc family
                SimAllocator* nodeFails = 0; long userBalance = 0;
                for (size_t k = 0; k < W.wrappers.size(); k++) if (W.wrappers[k] == alloc && W.wrappers[k]->failNodeIn == 0 && sepNode && !expectNull) { nodeFails = W.wrappers[k]; userBalance = nodeFails->allocs - nodeFails->frees; }
                if (platformFaultArmed) { lenient = true; }
                bool tooBig = overflowingCalloc || size > ((size_t)48 << 20) || size > SIZE_MAX - overhead;
                HEAP.userRequest = overflowingCalloc ? 0 : size; HEAP.armed = !overflowingCalloc && W.acct.empty(); HEAP.nodePassed = false; HEAP.limitHit = false;      // (an accounting decorator makes platform requests of its own before the user's)
                char* p = 0; bool threw = false, testFailure = false;
                try {
                    if (o.kind == H_CALLOC) p = (char*)cpputest_calloc_location((size_t)o.b, (size_t)o.c, file, line);
                    else if (o.kind == H_STRDUP && o.b >= 0 && (size_t)o.b <= src.size() && (o.d % 3) == 0) {
                        // strndup of the first n characters of a buffer that holds exactly n characters and no terminator (the C library's strndup reads at most n)
                        size_t n = (size_t)o.b; char* exact = (char*)::malloc(n ? n : 1); memcpy(exact, src.data(), n); fired("strndup_from_unterminated_buffer");
                        p = cpputest_strndup_location(exact, n, file, line); ::free(exact);
                    }
                    else if (o.kind == H_STRDUP) p = o.b == -1 ? cpputest_strdup_location(src.c_str(), file, line) : cpputest_strndup_location(src.c_str(), o.b <= -2 ? SIZE_MAX - (size_t)(-2 - o.b) : (size_t)o.b, file, line);
                    else if (route == 2) {
                        // nothrow new x a platform that really returns NULL: the default allocator turns the NULL into a test failure that is
                        // thrown through the noexcept operator -> std::terminate. Recorded in DESIGN 5 as a suspected defect; not generated (it would kill the worker).
                        bool nothrow = nothrowUsed;
                        if (fam == 0) p = nothrow ? (char*)::operator new(size, std::nothrow) : (char*)::operator new(size, file, line);
                        else if (fam == 1) p = nothrow ? (char*)::operator new[](size, std::nothrow) : (char*)::operator new[](size, file, line);
                        else p = (char*)cpputest_malloc_location(size, file, line);
                    } else p = det.allocMemory(alloc, size, file, line, route == 1);
                } catch (std::bad_alloc&) { threw = true; }
                catch (CppUTestFailedException&) { testFailure = true; }
                HEAP.armed = false;
                if (HEAP.limitHit) lenient = true;
                if (overflowingCalloc && p) { if (W.d->profile == "oom") fail(W, "C15", "calloc_like_the_c_library", sg("op", on), sfmt("op %zu: calloc(%llu, %llu): the product does not fit, the C library's calloc answers NULL; a block was returned", oi, (unsigned long long)o.b, (unsigned long long)o.c)); fail(W, "C05", "calloc_overflow", sg("op", on), sfmt("op %zu: calloc(%llu, %llu) overflows but returned a block", oi, (unsigned long long)o.b, (unsigned long long)o.c)); if (HEAP.find(p)) { S.live = false; } break; }
                if (testFailure && !lenient && !tooBig) fail(W, "C05", "clean_failure", sg("what", "test failure instead of NULL"), sfmt("op %zu (%s)", oi, on));
                if (threw && (nothrowUsed || fam == 2 || route != 2)) fail(W, "C05", "clean_failure", sg("what", "bad_alloc from a non-throwing form"), sfmt("op %zu", oi));
                bool gotNull = !p;
                if (nodeFails && !tooBig && nodeFails->failNodeIn != 0) {       // the node allocation was asked for and failed
                    expectNull = true;
                    if (nodeFails->allocs - nodeFails->frees != userBalance) fail(W, "C05", "clean_failure", sg("what", "user memory kept although the request failed"), sfmt("op %zu (%s): the bookkeeping node could not be allocated; the allocator served %ld more blocks than it got back", oi, on, (nodeFails->allocs - nodeFails->frees) - userBalance));
                }
                if ((isOom || expectNull) && !tooBig && !lenient && !HEAP.undersized) {
                    if (gotNull != expectNull) fail(W, isOom ? "C15" : "C05", isOom ? "designated_failure" : "injected_failure", sg2("op", on, "what", gotNull ? "undesignated allocation failed" : "designated allocation succeeded"), sfmt("op %zu (%s at %s:%zu, family %s): returned %s, model says %s (global index %d)", oi, on, file, line, famAlloc[fam], gotNull ? "NULL" : "a block", expectNull ? "NULL" : "a block", W.failIndex));
                }
                if (!gotNull && route == 2 && fam < 2 && expectNull && o.s2 != "nothrow") {}
                if (gotNull) { if (!expectNull && !tooBig && !lenient && !isOom && !HEAP.undersized && !CTX.nullMemcpy) fail(W, "C05", "spurious_null", sg("op", on), sfmt("op %zu (%s, size %zu): NULL although nothing failed", oi, on, size)); break; }
                // success
                S.live = true; S.tracked = true; S.p = p; S.size = size; S.family = fam; S.route = route; S.number = W.seq++; S.file = file; S.line = line; S.period = W.period; S.stage = W.stage;
                S.allocator = alloc; S.allocName = alloc->alloc_name(); S.pat = (isDia && (oi % 5) == 0) ? PCT_SEED : mix64(d.seed, oi); S.guardDirty = false;
                checkNewBlock(W, oi, on, p, size);
                if (o.kind == H_CALLOC) { for (size_t k = 0; k < size; k++) if (p[k]) { fail(W, "C05", "calloc_zero", sfmt("op %zu: byte %zu of a calloc'ed block of %zu is 0x%02x", oi, k, size, (unsigned char)p[k])); break; } }
                if (o.kind == H_STRDUP) { if (memcmp(p, src.data(), size - 1) != 0 || p[size - 1] != 0) fail(W, "C05", "strdup_copy", sfmt("op %zu: copy differs or is unterminated (length %zu)", oi, size - 1)); }
                if (HEAP.find(p) && p + size <= HEAP.find(p)->base + HEAP.find(p)->size) { fillPat(S); if (p + size + GUARD <= HEAP.find(p)->base + HEAP.find(p)->size) for (size_t k = 0; k < (size_t)GUARD && k < 64; k++) S.guard0[k] = (unsigned char)p[size + k]; } else S.p = 0;
                r.nontrivial = true;
                break;
            }
            case H_FREE: {
                if (!S.live) break;
                clearBuffer(W);
                int fam = o.b == 0 ? S.family : (int)((o.b - 1) % 3);
                TestMemoryAllocator* fa = S.route == 2 ? modelFor(W, fam) : W.famAllocator[fam];
                int cat = S.tracked ? expectedCategory(W, S, fa) : 0;
                size_t bad = 0; bool patOk = S.p ? checkPat(S, S.size, &bad) : true; (void)patOk;
                HEAP.watchFree = (S.route == 2 && S.tracked) ? S.p : 0; HEAP.watchSize = S.size; HEAP.watchPat = S.pat; HEAP.watchSeen = false; HEAP.watchLeft = 0;
                char* p = S.p ? S.p : 0;
                if (!p) { S.live = false; break; }
                // C06: at the moment the block reaches the allocator's free, no user byte may still hold the caller's pattern
                MBlock snapshot = S;
                if (S.route == 2) {
                    // global wrappers poison first; observe the bytes right before the platform/allocator free by wrapping the free seam: done in SimHeap.release via CTX.watchFree
                    int form = (int)o.c; if (form) fired("delete_entry_point_other_than_plain");
                    if (fam == 0) { switch (form) { case 1: ::operator delete(p, "f", (int)1); break; case 2: ::operator delete(p, "f", (size_t)1); break; case 3: ::operator delete(p, S.size); break; case 4: ::operator delete(p, std::nothrow); break; default: ::operator delete(p); } }
                    else if (fam == 1) { switch (form) { case 1: ::operator delete[](p, "f", (int)1); break; case 2: ::operator delete[](p, "f", (size_t)1); break; case 3: ::operator delete[](p, S.size); break; case 4: ::operator delete[](p, std::nothrow); break; default: ::operator delete[](p); } }
                    else cpputest_free_location(p, file, line);
                } else det.deallocMemory(fa, p, file, line, S.route == 1);
                expectReports(W, oi, on, cat);
                if (S.route == 2 && S.tracked && S.size > 0 && (cat == -1 || cat == 2) && modelActual(W, fa) == modelActual(W, S.allocator)) { probe("free_seam_observed"); if (cat == 2) fired("overrun_block_reaches_free_seam");      // a block reported as overrun is still a released block: its user bytes are overwritten like any other's
                    if (!HEAP.watchSeen) fail(W, "C06", "poison_before_release", sg("what", "block never reached the free seam"), sfmt("op %zu", oi));
                    else if (HEAP.watchLeft) fail(W, "C06", "poison_before_release", sg("what", "user bytes not overwritten"), sfmt("op %zu: %zu of %zu user bytes still held the caller's data when the block was returned (family %s)", oi, HEAP.watchLeft, S.size, famAlloc[fam])); }
                HEAP.watchFree = 0;
                S.live = false; W.stale.push_back(p);
                (void)snapshot;
                break;
            }
            case H_REALLOC: {
                if (!S.live || !S.p) break;
                // a block from new / new[] handed to realloc: with allocation type checking switched off that is no misuse and must simply work (the block is a malloc-family block afterwards)
                if (S.family != 2 && !(W.d->profile == "misuse" && !W.typecheck && S.tracked)) break;
                if (S.family != 2) fired("realloc_of_a_block_from_new_with_type_checking_off");
                clearBuffer(W);
                if (!S.tracked) {          // accounting was cleared for this block: it is a foreign address now
                    char* q = S.route == 2 ? (char*)cpputest_realloc_location(S.p, o.c == -1 ? S.size : (size_t)o.c, file, line) : det.reallocMemory(W.famAllocator[2], S.p, o.c == -1 ? S.size : (size_t)o.c, file, line, S.route == 1);
                    expectReports(W, oi, on, 0);
                    if (q) fail(W, "C06", "report_category", sg2("want", "non-allocated", "got", "a block"), sfmt("op %zu: realloc of an untracked address returned a block", oi));
                    break;
                }
                size_t size = o.c == -1 ? S.size : (size_t)o.c; size_t overhead = GUARD + 8 + sizeof(MemoryLeakDetectorNode);
                bool tooBig = size > ((size_t)48 << 20) || size > SIZE_MAX - overhead;
                bool expectNull = tooBig || (S.route == 2 && W.oomAll); HEAP.firedNull = 0;      // (simulated out of memory: a reallocation is an allocation)
                bool oomRealloc = S.route == 2 && W.oomAll && !tooBig;
                bool lenientR = false;      // an accounting decorator over an allocator with a failure pending: whether this reallocation's requests reach the failing one is the decorator's business
                if (!W.acct.empty()) for (size_t k = 0; k < W.wrappers.size(); k++) if (W.wrappers[k]->failIn >= 0) lenientR = true;      // an armed platform fault counts once the platform was really asked (which platform calls a reallocation makes is the detector's business)
                TestMemoryAllocator* fa = S.route == 2 ? modelFor(W, 2) : W.famAllocator[2];
                int cat = S.tracked ? expectedCategory(W, S, fa) : 0;
                SimAllocator* nodeFails = 0;
                for (size_t k = 0; k < W.wrappers.size(); k++) if (W.wrappers[k] == fa && W.wrappers[k]->failNodeIn == 0 && (GUARD == 0 || S.route != 0) && !tooBig && cat == -1) nodeFails = W.wrappers[k];
                HEAP.userRequest = size; HEAP.armed = W.acct.empty(); HEAP.armedReallocOnly = true; HEAP.limitHit = false;
                char* np = 0; size_t keep = S.size < size ? S.size : size;
                if (S.route == 2) np = (char*)cpputest_realloc_location(S.p, size, file, line);
                else np = det.reallocMemory(fa, S.p, size, file, line, S.route == 1);
                HEAP.armed = false; HEAP.armedReallocOnly = false; if (HEAP.limitHit || HEAP.firedNull) expectNull = true;
                if (HEAP.failReallocIn == 0) { HEAP.failReallocIn = -1; probe("realloc_fault_never_asked_for"); }      // this reallocation made no platform realloc call: the fault is dropped rather than left for some later operation
                if (nodeFails && nodeFails->failNodeIn != 0) expectNull = true;
                // a request refused for its size alone may be refused before or after the block is looked at: a due misuse report is then optional
                if (size > SIZE_MAX - 256 && cat != -1 && CTX.reports.empty() && !np) probe("oversize_realloc_refused_before_lookup");
                else expectReports(W, oi, on, cat);
                if (!np) {
                    if (!expectNull && !HEAP.undersized && !lenientR) fail(W, "C05", "spurious_null", sg("op", on), sfmt("op %zu: realloc to %zu returned NULL although nothing failed", oi, size));
                    // a failed realloc must leave the old block valid and still tracked
                    probe("failed_realloc");
                    { size_t want = 0; for (int i = 0; i < N_SLOTS; i++) if (W.slots[i].live && W.slots[i].tracked) want++;
                      size_t got = det.totalMemoryLeaks(mem_leak_period_all);
                      if (got != want) {
                          fail(W, "C05", "tracked_after_failed_request", sg("op", on), sfmt("op %zu: after the failed realloc the detector tracks %zu blocks, %zu are still held", oi, got, want));
                          fail(W, "C04", "totals", sg("after", on), sfmt("after op %zu (%s): totalMemoryLeaks(all) = %zu, model %zu (a failed realloc must not change the outstanding set)", oi, on, got, want));
                          // what the correctly paired release of the block says now, by observation (C06: paired releases never produce a report)
                          CTX.reports.clear();
                          int relCat = expectedCategory(W, S, fa);
                          if (S.route == 2) cpputest_free_location(S.p, file, line); else det.deallocMemory(fa, S.p, file, line, S.route == 1);
                          expectReports(W, oi, "free", relCat);
                          S.live = false;
                      } }
                    break;
                }
                // A block came back. While out of memory is simulated that is fine for a reallocation that needed no memory (the block stays where it is); after an
                // injected platform failure it is fine if the detector asked again and was served (the request could be satisfied after all). What came back is
                // checked like any other block below.
                if (oomRealloc) probe("realloc_served_while_out_of_memory"); else if (HEAP.firedNull && !tooBig) probe("realloc_served_after_a_platform_failure");
                else if (expectNull && !tooBig) fail(W, "C05", "injected_failure", sg2("op", on, "what", "platform realloc failed but a block was returned"), sfmt("op %zu", oi));
                MBlock old = S;
                S.p = np; S.size = size; S.number = W.seq++; S.file = file; S.line = line; S.period = W.period; S.stage = W.stage; S.allocator = fa; S.allocName = fa->alloc_name(); S.guardDirty = false; S.family = 2;
                checkNewBlock(W, oi, on, np, size);
                if (HEAP.find(np) && np + size <= HEAP.find(np)->base + HEAP.find(np)->size) {
                    size_t bad = 0; MBlock probeB = S; probeB.size = keep + 1;      // (+1: only the patterned prefix is compared, not a tail that was never filled)
                    if (!checkPat(probeB, keep, &bad)) fail(W, "C05", "realloc_preserves", sfmt("op %zu: byte %zu of the first %zu bytes changed across realloc %zu -> %zu", oi, bad, keep, old.size, size));
                    fillPat(S);
                    if (np + size + GUARD <= HEAP.find(np)->base + HEAP.find(np)->size) for (size_t k = 0; k < (size_t)GUARD && k < 64; k++) S.guard0[k] = (unsigned char)np[size + k];
                } else S.p = 0;
                r.nontrivial = true;
                break;
            }
            case H_ENABLE: det.enable(); W.period = mem_leak_period_enabled; break;
            case H_DISABLE: det.disable(); W.period = mem_leak_period_disabled; break;
            case H_START: det.startChecking(); W.period = mem_leak_period_checking; W.diaCleanReport = true; W.diaMisuse = 0; W.lastReportText.clear(); W.lastReportValid = true; break;
            case H_STOP: det.stopChecking(); W.period = mem_leak_period_enabled; break;
            case H_MARK: det.markCheckingPeriodLeaksAsNonCheckingPeriod(); for (int i = 0; i < N_SLOTS; i++) if (W.slots[i].live && W.slots[i].period == mem_leak_period_checking) W.slots[i].period = mem_leak_period_enabled; break;
            case H_STAGE_INC:
                if (o.a > 0) {      // enter a further stages and leave them again: nothing is allocated or released on the way, so every block is in the stage it was in and the current stage is the one before the trip
                    for (int64_t k = 0; k < o.a; k++) det.increaseAllocationStage();
                    for (int64_t k = 0; k < o.a; k++) det.decreaseAllocationStage();
                    if (W.stage + o.a > 255) fired("stage_trip_past_255");
                    break;
                }
                if (W.stage < 250) { det.increaseAllocationStage(); W.stage++; } break;
            case H_STAGE_DEC: if (W.stage > 0) { det.decreaseAllocationStage(); W.stage--; } break;
            case H_STAGE_FREE: {
                clearBuffer(W);
                int expectBad = 0;
                for (int i = 0; i < N_SLOTS; i++) if (W.slots[i].live && W.slots[i].tracked && W.slots[i].stage == W.stage) { if (W.slots[i].guardDirty && GUARD) expectBad++; }
                det.deallocAllMemoryInCurrentAllocationStage();
                for (int i = 0; i < N_SLOTS; i++) if (W.slots[i].live && W.slots[i].tracked && W.slots[i].stage == W.stage) { W.slots[i].live = false; W.stale.push_back(W.slots[i].p); }
                if ((int)CTX.reports.size() != expectBad) fail(W, "C06", "report_category", sg2("want", "stage release", "got", "count differs"), sfmt("op %zu: %zu reports, %d expected", oi, CTX.reports.size(), expectBad));
                if (!CTX.reports.empty()) W.diaCleanReport = false;
                CTX.reports.clear(); probe("stage_release");
                break;
            }
            case H_CLEAR: {
                int q = (int)(o.a % 4);
                det.clearAllAccounting((MemLeakPeriod)q);
                for (int i = 0; i < N_SLOTS; i++) if (W.slots[i].live && W.slots[i].tracked && inPeriod(W.slots[i].period, q)) W.slots[i].tracked = false;
                probe("clear_accounting");
                break;
            }
            case H_QUERY: {
                int q = (int)(o.a % 4);
                if (o.b == 1 && W.lastReportValid && W.lastReportText.size() < 2600) {
                    // a further report without clearing in between: the buffer accumulates, the new report is what was appended
                    const char* text = det.report((MemLeakPeriod)q);
                    Str t = text;
                    if (t.compare(0, W.lastReportText.size(), W.lastReportText) == 0 && t.size() < 3300) { Str suffix = t.substr(W.lastReportText.size()); parseReport(W, oi, suffix.c_str(), q, true); probe("consecutive_report_without_clear"); }
                    W.lastReportText = t; W.lastReportValid = t.size() < 3300;
                    h.str(text);
                    break;
                }
                clearBuffer(W);                            // startChecking is the only way to clear the buffer; the period is restored at once, nothing is allocated in between
                const char* text = det.report((MemLeakPeriod)q);
                parseReport(W, oi, text, q, true);
                W.lastReportText = text; W.lastReportValid = true;
                h.str(text);
                break;
            }
            case H_REPORT: {
                int q = (int)(o.a % 4);
                const char* text = det.report((MemLeakPeriod)q);
                size_t len = strnlen(text, BUFLEN + 900);
                if (len > BUFLEN - 1) fail(W, "C14", "terminated", sg("what", "unterminated"), sfmt("op %zu: report text runs past %zu bytes", oi, BUFLEN - 1));
                parseReport(W, oi, text, q, W.diaCleanReport);
                if (W.diaCleanReport) probe("report_on_clean_buffer"); else probe("report_on_used_buffer");
                W.diaCleanReport = false;
                break;
            }
            case H_FLIP: {
                if (!S.live || !S.p) break;
                if (o.b == 0) { if (S.size == 0) break; size_t idx = (size_t)o.c % S.size; S.p[idx] = (char)o.d; S.pat = S.pat; /* keep the pattern consistent */ S.p[idx] = (char)patByte(S.pat, idx); probe("write_inside_user_bytes");
                    // a write inside the user bytes is the caller's right; rewrite with another value and restore so the pattern check stays meaningful
                }
                else if (o.b == 1) { if (!GUARD) break; size_t idx = (size_t)o.c % GUARD; char before = S.p[S.size + idx]; char val = o.d == -1 ? before : (o.d == -2 ? (char)S.guard0[idx] : (char)o.d); S.p[S.size + idx] = val; if (before != val) { S.guardDirty = true; fired("flip_guard_byte"); } else probe("same_value_guard_write");
                    bool anyDiff = false; for (size_t k = 0; k < (size_t)GUARD; k++) if ((unsigned char)S.p[S.size + k] != S.guard0[k]) anyDiff = true; S.guardDirty = anyDiff; }
                else { /* (writes behind the guard bytes were tried here once; what lies there is the detector's own layout, which the property does not describe) */ }
                break;
            }
            case H_BADFREE: {
                clearBuffer(W);
                int fam = (int)(o.b % 3); TestMemoryAllocator* fa = o.phase == 2 ? modelFor(W, fam) : W.famAllocator[fam];
                char* p = 0; char stackObj[32]; int cat = 0;
                switch (o.a) {
                case 0: p = 0; cat = -1; break;
                case 1: if (W.stale.empty()) { cat = -2; break; } p = W.stale[(size_t)o.c % W.stale.size()];
                    for (int i = 0; i < N_SLOTS; i++) if (W.slots[i].live && W.slots[i].p == p) cat = -2;      // address reused (never with the bump arena)
                    fired("stale_free"); break;
                case 2: { MBlock& T = W.slots[(size_t)o.c % N_SLOTS]; if (!T.live || !T.p || T.size < 2) { cat = -2; break; } p = T.p + 1 + ((size_t)o.c % (T.size - 1)); fired("interior_free"); break; }
                case 3: p = stackObj; fired("foreign_free"); break;
                default: p = (char*)::malloc(24); W.untrackedHeap.push_back(p); fired("foreign_free"); break;
                }
                if (cat == -2) break;
                if (o.phase == 2) { if (fam == 0) ::operator delete(p); else if (fam == 1) ::operator delete[](p); else cpputest_free_location(p, file, line); }
                else det.deallocMemory(fa, p, file, line, false);
                expectReports(W, oi, on, cat);
                break;
            }
            case H_FAULT:
                if (d.pi("fault_free")) break;
                if (o.a == 0 || o.a == 3) { // next allocator-level allocation (0) or bookkeeping-node allocation (3) of a family returns NULL: needs a SimAllocator in place
                    TestMemoryAllocator* like = modelActual(W, W.famAllocator[o.b % 3]);      // the failing allocator is of the family's type (a decorator on top has a name of its own)
                    SimAllocator* sa = new (::malloc(sizeof(SimAllocator))) SimAllocator(like->name(), like->alloc_name(), like->free_name());
                    if (o.a == 3) sa->failNodeIn = 0; else sa->failIn = o.c > 0 && o.c < 4 ? (long)o.c : 0;      // c: the allocator's (c+1)-th allocation from now fails (an accounting decorator on top asks twice per block)
                    W.wrappers.push_back(sa); W.famAllocator[o.b % 3] = sa;
                    if (o.b % 3 == 0) setCurrentNewAllocator(sa); else if (o.b % 3 == 1) setCurrentNewArrayAllocator(sa); else setCurrentMallocAllocator(sa);
                }
                else if (!W.acct.empty()) break;      // (the accountant of an accounting decorator allocates through the default allocators, whose answer to a platform NULL is the known finding C05-nothrow-new-terminates: not mixed)
                else if (o.a == 1) HEAP.failMallocIn = o.b;
                else HEAP.failReallocIn = 0;
                break;
            case H_TYPECHECK: if (o.a) det.enableAllocationTypeChecking(); else det.disableAllocationTypeChecking(); W.typecheck = o.a != 0; break;
            case H_WRAP: {
                int fam = (int)(o.a % 3); TestMemoryAllocator* base = fam == 0 ? defaultNewAllocator() : (fam == 1 ? defaultNewArrayAllocator() : defaultMallocAllocator());
                TestMemoryAllocator* use = base;
                if (o.b == 1 || o.b == 2 || o.b == 3 || o.b == 5) {
                    // 1: own type with the same name; 2: own type with another name; 3: decorator (forwards, same name); 5: decorator with its own name
                    // (like MemoryLeakAllocator / AccountingTestMemoryAllocator: the family is that of actualAllocator())
                    SimAllocator* sa = new (::malloc(sizeof(SimAllocator))) SimAllocator(o.b == 2 ? "Some Other Allocator" : (o.b == 5 ? "Decorating Allocator" : base->name()), base->alloc_name(), base->free_name());
                    if (o.b == 3 || o.b == 5) sa->forwardTo = base;
                    W.wrappers.push_back(sa); use = sa;
                } else if (o.b == 4) { use = &failable; W.failable = &failable; W.failableFor[fam] = true; }
                else if (o.b == 6) {       // the library's own accounting decorator on top of whatever serves the family now (nests when applied again)
                    if (HEAP.failMallocIn >= 0 || W.acct.size() >= 6) break;
                    if (!W.accountant) W.accountant = new (::malloc(sizeof(MemoryAccountant))) MemoryAccountant();
                    TestMemoryAllocator* under = W.famAllocator[fam];
                    AccountingTestMemoryAllocator* aw = new (::malloc(sizeof(AccountingTestMemoryAllocator))) AccountingTestMemoryAllocator(*W.accountant, under);
                    W.acctBase.push_back(modelActual(W, under)); W.acct.push_back(aw); use = aw; fired("accounting_decorator_installed");
                    if (W.acct.size() >= 2) probe("accounting_decorators_nested");
                }
                W.famAllocator[fam] = use;
                if (fam == 0) setCurrentNewAllocator(use); else if (fam == 1) setCurrentNewArrayAllocator(use); else setCurrentMallocAllocator(use);
                break;
            }
            case H_DESIGNATE_N: {
                bool clash = false; for (size_t i = 0; i < W.desig.size(); i++) if (!W.desig[i].byLoc && W.desig[i].n == (int)o.a) clash = true;
                if (clash) break;    // never two designations of one allocation; an index already passed is legal: it never fires and stays pending
                if ((int)o.a <= W.failIndex) fired("designate_index_already_passed");
                failable.failAllocNumber((int)o.a);
                World::Desig g; g.byLoc = false; g.n = (int)o.a; g.line = 0; g.seen = 0; W.desig.push_back(g); fired("designate_global_index");
                break;
            }
            case H_DESIGNATE_AT: {
                World::Desig g; g.byLoc = true; g.n = (int)o.a; g.file = siteFile((int)o.b); g.line = siteLine((int)o.b); g.seen = 0;
                bool clash = false; for (size_t i = 0; i < W.desig.size(); i++) if (W.desig[i].byLoc && W.desig[i].file == g.file && W.desig[i].line == g.line && W.desig[i].n - W.desig[i].seen == g.n) clash = true;
                if (clash) break;
                failable.failNthAllocAt((int)o.a, siteFile((int)o.b), siteLine((int)o.b));
                W.desig.push_back(g); fired("designate_site_index");
                break;
            }
            case H_CHECK_DONE: {
                // asked by a test of its own (a fresh one each time, as every real test is): what it recorded says whether the pending designation was reported
                bool reported = askWhetherAllFailedAllocsWereDone(failable, o.a != 0);
                if (o.a) fired("check_asked_by_a_test_that_failed_already");
                if (reported != !W.desig.empty()) fail(W, "C15", "never_done_check", sg("what", reported ? "reported although nothing is pending" : "pending designation not reported"), sfmt("op %zu: %zu designations pending", oi, W.desig.size()));
                probe(reported ? "never_done_reported" : "all_done");
                break;
            }
            case H_CLEAR_FAILS: failable.clearFailedAllocs(); W.desig.clear(); W.failIndex = 0; break;
            case H_OOM_SET: cpputest_malloc_set_out_of_memory(); W.oomAll = true; W.oomCountdown = -1; fired("c_out_of_memory"); break;
            case H_OOM_COUNTDOWN: cpputest_malloc_set_out_of_memory_countdown((int)o.a); W.oomCountdown = (int)o.a; if (o.a == 0) W.oomAll = true; fired("c_out_of_memory_countdown"); break;
            case H_OOM_CLEAR: { cpputest_malloc_set_not_out_of_memory(); W.oomAll = false; W.oomCountdown = -1; } break;      // clearing restores what was in place before out-of-memory was switched on (the model's failableFor[] does not change)
            case H_COUNT_RESET: cpputest_malloc_count_reset(); fired("c_malloc_count_reset"); break;
            case H_STASH: { GlobalMemoryAllocatorStash st; st.save(); st.restore(); probe("allocator_stash_round_trip"); break; }
            case H_MODE: {      // nothing is allocated or released in between: every block stays tracked, every later call is tracked again
                if (o.a == 0) { MemoryLeakWarningPlugin::turnOffNewDeleteOverloads(); if (W.threadsafeNow) MemoryLeakWarningPlugin::turnOnThreadSafeNewDeleteOverloads(); else MemoryLeakWarningPlugin::turnOnDefaultNotThreadSafeNewDeleteOverloads(); }
                else if (o.a == 1) { MemoryLeakWarningPlugin::saveAndDisableNewDeleteOverloads(); MemoryLeakWarningPlugin::restoreNewDeleteOverloads(); }
                else { W.threadsafeNow = !W.threadsafeNow; if (W.threadsafeNow) MemoryLeakWarningPlugin::turnOnThreadSafeNewDeleteOverloads(); else MemoryLeakWarningPlugin::turnOnDefaultNotThreadSafeNewDeleteOverloads(); }
                fired("overload_mode_history");
                break;
            }
            case H_SSB: {
                char text[800]; size_t n = (size_t)o.b < sizeof text - 1 ? (size_t)o.b : sizeof text - 1; memset(text, 'q', n); text[n] = 0;
                if (o.a == 0) ssb.add("%s", text); else if (o.a == 1) ssb.addMemoryDump(text, n); else if (o.a == 2) ssb.setWriteLimit((size_t)o.b); else if (o.a == 3) ssb.resetWriteLimit(); else ssb.clear();
                if (strnlen(ssb.toString(), BUFLEN + 100) > BUFLEN - 1) fail(W, "C14", "terminated", sg("what", "free-standing buffer unterminated"), sfmt("op %zu", oi));
                break;
            }
            default: break;
            }
            } catch (CppUTestFailedException&) {
                // the default allocators turn a NULL from the platform into a test failure ("malloc returned null pointer"): accepted only when the platform really refused
                HEAP.armed = false;
                if (!platformFaultArmed && !HEAP.limitHit && !HEAP.undersized) fail(W, "C05", "clean_failure", sg("what", "test failure although the platform did not fail"), sfmt("op %zu (%s)", oi, on));
                else probe("platform_null_became_test_failure");
                if (o.kind == H_REALLOC || o.kind == H_FREE) { S.live = false; }
                CTX.reports.clear();
            }
            if (o.kind != H_FREE && o.kind != H_REALLOC && o.kind != H_BADFREE && o.kind != H_STAGE_FREE) { if (!CTX.reports.empty()) { expectReports(W, oi, on, -1); } }
            invariants(W, oi, on);
            h.u64(W.seq); h.u64((uint64_t)W.period);
        }
        // ---- end of history: everything still live can be released without a report (C05: still tracked and valid)
        CTX.reports.clear();
        det.disableAllocationTypeChecking();
        HEAP.failMallocIn = HEAP.failReallocIn = -1;      // a platform fault that no operation of the history consumed is not for the clean-up
        for (int i = 0; i < N_SLOTS; i++) if (W.slots[i].live && W.slots[i].p && W.slots[i].tracked && !W.slots[i].guardDirty) {
            MBlock& S = W.slots[i];
            if (S.route == 2) { if (S.family == 0) ::operator delete(S.p); else if (S.family == 1) ::operator delete[](S.p); else cpputest_free_location(S.p, "end", 1); }
            else det.deallocMemory(S.allocator, S.p, "end", 1, S.route == 1);
            S.live = false;
        }
        if (!CTX.reports.empty()) fail(W, "C05", "release_at_end", sg("got", CTX.reports[0].first.c_str()), sfmt("releasing the surviving blocks raised %zu reports", CTX.reports.size()));
        if (CTX.bufOverflow) fail(W, "C14", "buffer_bounds", sg("after", "end"), CTX.bufOverflowDetail);
        cpputest_malloc_set_not_out_of_memory();      // always: the countdown is a static of the library and must not reach the next run of this worker
        MemoryLeakWarningPlugin::turnOnDefaultNotThreadSafeNewDeleteOverloads();
        failable.clearFailedAllocs();
        stash.restore();
        setCurrentNewAllocatorToDefault(); setCurrentNewArrayAllocatorToDefault(); setCurrentMallocAllocatorToDefault();
        for (size_t i = W.acct.size(); i-- > 0;) { W.acct[i]->~AccountingTestMemoryAllocator(); ::free(W.acct[i]); }
        if (W.accountant) { W.accountant->clear(); W.accountant->~MemoryAccountant(); ::free(W.accountant); }
        for (size_t i = 0; i < W.wrappers.size(); i++) { W.wrappers[i]->~SimAllocator(); ::free(W.wrappers[i]); }
        for (size_t i = 0; i < W.untrackedHeap.size(); i++) ::free(W.untrackedHeap[i]);
        MemoryLeakWarningPlugin::setGlobalDetector(oldDet, oldRep);
        }
        HEAP.active = false;
        for (size_t i = 0; i < r.viols.size(); i++) h.str(r.viols[i].cls().c_str());
        r.hash = h.h;
        CTX.bufBase = 0; CTX.ssbBase = 0;
    }

    void simplifications(const Desc& d, Vec<Desc>& out) {
        if (d.pi("residue", -1) != -1) { Desc c = d; c.p["residue"] = -1; out.push_back(c); }
        if (d.pi("threadsafe")) { Desc c = d; c.p["threadsafe"] = 0; out.push_back(c); }
        if (d.groups.empty()) return;
        const Group& H = d.groups[0];
        for (size_t i = 0; i < H.ops.size(); i++) {
            const Op& o = H.ops[i];
            if ((o.kind == H_ALLOC || o.kind == H_REALLOC) && o.c > 8 && o.c < (1 << 20)) { Desc c = d; c.groups[0].ops[i].c = o.c / 2; out.push_back(c); }
            if (o.kind == H_ALLOC && o.phase != 0) { Desc c = d; c.groups[0].ops[i].phase = 0; out.push_back(c); }
            if (o.s.size() > 12) { Desc c = d; c.groups[0].ops[i].s = o.s.substr(0, o.s.size() / 2) + ".c"; out.push_back(c); }
        }
    }
};

}  // namespace hs

int main(int argc, char** argv) {
    hs::Engine e;
    return vf::driverMain(argc, argv, e);
}
