# Builds the simulation engines from /repo's current working tree. Variants: asan (default), noexc, noguard, plain, tsi.
REPO ?= /repo
B ?= build
CXX := g++
DEFS := -DCPPUTEST_HAVE_FORK -DCPPUTEST_HAVE_WAITPID -DCPPUTEST_HAVE_KILL -DCPPUTEST_HAVE_PTHREAD_MUTEX_LOCK -DCPPUTEST_HAVE_GETTIMEOFDAY -DCPPUTEST_USE_LONG_LONG=1 -DCPPUTEST_HAVE_STRDUP
INC := -I$(REPO)/include -I.
BASE := -std=gnu++17 -O1 -g1 -fno-omit-frame-pointer -w $(DEFS) $(INC) -MMD -MP
SAN := -fsanitize=address -fsanitize=bounds,pointer-overflow,vla-bound -fno-sanitize-recover=all
FLAGS_asan := $(BASE) $(SAN)
FLAGS_noexc := $(BASE) $(SAN) -fno-exceptions
FLAGS_noguard := $(BASE) $(SAN) -DCPPUTEST_DISABLE_MEM_CORRUPTION_CHECK
FLAGS_plain := $(BASE)
FLAGS_tsi := $(BASE)

REPO_SRCS := $(wildcard $(REPO)/src/CppUTest/*.cpp) $(wildcard $(REPO)/src/CppUTestExt/Mock*.cpp) $(REPO)/src/Platforms/Gcc/UtestPlatform.cpp
repo_objs = $(patsubst $(REPO)/src/%.cpp,$(B)/$(1)/repo/%.o,$(REPO_SRCS))

ENGINES_asan := runsim heapsim cachesim mocksim
ENGINES_noexc := runsim
ENGINES_noguard := heapsim
ENGINES_plain := runsim
ENGINES_tsi := thrsim
ALL := $(foreach v,asan noexc noguard plain tsi,$(foreach e,$(ENGINES_$(v)),$(B)/$(v)/$(e)))

all: $(ALL)

define VARIANT_RULES
$(B)/$(1)/repo/%.o: $(REPO)/src/%.cpp
	@mkdir -p $$(dir $$@)
	$(CXX) $$(FLAGS_$(1)) -c $$< -o $$@
$(B)/$(1)/verif/%.o: %.cpp
	@mkdir -p $$(dir $$@)
	$(CXX) $$(FLAGS_$(1)) -c $$< -o $$@
endef
$(foreach v,asan noexc noguard plain tsi,$(eval $(call VARIANT_RULES,$(v))))
# the four translation units that hold the detector's shared state are instrumented: every load/store becomes a yield point
TSI_UNITS := MemoryLeakDetector MemoryLeakWarningPlugin TestMemoryAllocator SimpleMutex
$(foreach u,$(TSI_UNITS),$(eval $(B)/tsi/repo/CppUTest/$(u).o: FLAGS_tsi := $(BASE) -fsanitize=thread))

RUNSIM_SRCS := runsim/main.cpp runsim/gen.cpp runsim/exec.cpp runsim/oracle.cpp core/asanopts.cpp
define RUNSIM_RULE
$(B)/$(1)/runsim: $(patsubst %.cpp,$(B)/$(1)/verif/%.o,$(RUNSIM_SRCS)) $(call repo_objs,$(1))
	$(CXX) $$(FLAGS_$(1)) $$^ -o $$@ -lexpat -lpthread -Wl,--wrap=kill,--wrap=fork,--wrap=waitpid,--wrap=fopen,--wrap=fputs,--wrap=fclose,--wrap=fflush,--wrap=fwrite,--wrap=fputc,--wrap=putc,--wrap=putchar,--wrap=puts,--wrap=vfprintf,--wrap=fprintf,--wrap=vprintf,--wrap=printf
endef
$(foreach v,asan noexc plain,$(eval $(call RUNSIM_RULE,$(v))))

HEAPSIM_SRCS := heapsim/heapsim.cpp core/asanopts.cpp
define HEAPSIM_RULE
$(B)/$(1)/heapsim: $(patsubst %.cpp,$(B)/$(1)/verif/%.o,$(HEAPSIM_SRCS)) $(call repo_objs,$(1))
	$(CXX) $$(FLAGS_$(1)) $$^ -o $$@ -lpthread
endef
$(foreach v,asan noguard,$(eval $(call HEAPSIM_RULE,$(v))))

CACHESIM_SRCS := cachesim/cachesim.cpp core/asanopts.cpp
$(B)/asan/cachesim: $(patsubst %.cpp,$(B)/asan/verif/%.o,$(CACHESIM_SRCS)) $(call repo_objs,asan)
	$(CXX) $(FLAGS_asan) $^ -o $@ -lpthread

MOCKSIM_SRCS := mocksim/mocksim.cpp core/asanopts.cpp
$(B)/asan/mocksim: $(patsubst %.cpp,$(B)/asan/verif/%.o,$(MOCKSIM_SRCS)) $(call repo_objs,asan)
	$(CXX) $(FLAGS_asan) $^ -o $@ -lpthread

THRSIM_SRCS := thrsim/thrsim.cpp
$(B)/tsi/thrsim: $(patsubst %.cpp,$(B)/tsi/verif/%.o,$(THRSIM_SRCS)) $(call repo_objs,tsi)
	$(CXX) $(FLAGS_tsi) $^ -o $@ -lpthread -Wl,--wrap=pthread_mutex_init,--wrap=pthread_mutex_lock,--wrap=pthread_mutex_trylock,--wrap=pthread_mutex_unlock,--wrap=pthread_mutex_destroy,--wrap=__cxa_allocate_exception,--wrap=pthread_mutex_timedlock

clean:
	rm -rf $(B)

-include $(shell find $(B) -name '*.d' 2>/dev/null)
.PHONY: all clean
