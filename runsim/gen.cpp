// runsim/gen.cpp - seed -> world (registry of scripted tests, plugins, filters), configuration, fault plan.
#include "runsim.h"

namespace rs {

static const char* const kNames[K_COUNT] = { "none", "mark", "pass", "fail_cpp", "fail_c", "throw_std", "throw_foreign", "print", "clock",
    "alloc", "free", "realloc", "expect_leaks", "ignore_leaks", "ptr_set", "plugin_error",
    "die_signal", "die_exit", "die_abort", "die_stop", "fork_fail", "wait_eintr", "wait_error", "wait_stopped", "wait_exited", "wait_signaled",
    "plugin_install", "plugin_remove", "other_leak_plugin", "add_failures", "nested_run", "detector_off", "misuse_free" };
const char* kindName(int k) { return k >= 0 && k < K_COUNT ? kNames[k] : "none"; }
int kindFromName(const char* s) { for (int i = 0; i < K_COUNT; i++) if (!strcmp(s, kNames[i])) return i; return K_NONE; }

Config configOf(const Desc& d) {
    Config c;
    c.repeat = (int)d.pi("repeat", 0); c.reverse = (int)d.pi("reverse"); c.shuffle = (int)d.pi("shuffle"); c.shuffleSeed = (uint64_t)d.pi("shuffle_seed", 1);
    c.runIgnored = (int)d.pi("run_ignored"); c.verbose = (int)d.pi("verbose"); c.color = (int)d.pi("color"); c.output = (int)d.pi("output");
    c.separate = (int)d.pi("separate"); c.package = d.ps("package"); c.hasExceptions = d.variant != "noexc";
    return c;
}

// The command line is derived from the configuration so that shrinking the configuration shrinks the argv.
void buildArgv(const Desc& d, Vec<Str>& av) {
    Config c = configOf(d);
    av.clear();
    av.push_back("runsim");
    av.push_back(d.pi("use_ci") ? "-ci" : "-e");
    if (c.verbose == 1) av.push_back("-v");
    if (c.verbose == 2) av.push_back("-vv");
    if (c.color) av.push_back("-c");
    if (c.repeat == 2 && d.pi("repeat_attached", 1) == 2) av.push_back("-r");        // a count-less -r means twice; what follows it is an option of its own
    else if (c.repeat > 0) { if (d.pi("repeat_attached", 1)) av.push_back(sfmt("-r%d", c.repeat)); else { av.push_back("-r"); av.push_back(sfmt("%d", c.repeat)); } }
    if (c.reverse) av.push_back("-b");
    if (c.shuffle == 1) { if (d.pi("shuffle_attached", 1)) av.push_back(sfmt("-s%llu", (unsigned long long)c.shuffleSeed)); else { av.push_back("-s"); av.push_back(sfmt("%llu", (unsigned long long)c.shuffleSeed)); } }
    if (c.shuffle == 2) av.push_back("-s");
    if (c.runIgnored) av.push_back("-ri");
    if (c.separate) av.push_back("-p");
    if (c.separate && d.pi("crash_on_fail")) av.push_back("-f");
    if (c.output == 1) av.push_back("-onormal");
    if (c.output == 2) av.push_back("-oeclipse");
    if (c.output == 3) av.push_back("-ojunit");
    if (c.output == 4) av.push_back("-oteamcity");
    if (!c.package.empty()) { av.push_back("-k"); av.push_back(c.package); }
    for (size_t g = 0; g < d.groups.size(); g++) {
        const Group& G = d.groups[g];
        if (G.tag != "filter") continue;
        int isName = (int)G.arg(0), strict = (int)G.arg(1), invert = (int)G.arg(2), form = (int)G.arg(3), attached = (int)G.arg(4);
        if (form == 0) {
            Str opt = "-"; if (invert) opt += "x"; if (strict) opt += "s"; opt += isName ? "n" : "g";
            if (attached && G.sarg(0)[0]) av.push_back(opt + G.sarg(0)); else { av.push_back(opt); av.push_back(G.sarg(0)); }
        } else if (form == 1) {           // -t group.name  (adds a group filter and a name filter)
            Str opt = "-"; if (invert) opt += "x"; if (strict) opt += "s"; opt += "t";
            Str val = Str(G.sarg(0)) + "." + G.sarg(1);
            if (attached) av.push_back(opt + val); else { av.push_back(opt); av.push_back(val); }
        } else {                           // "TEST(group, name)" as copied from verbose output: strict group and strict name
            av.push_back(Str(form == 3 ? "IGNORE_TEST(" : "TEST(") + G.sarg(0) + ", " + G.sarg(1) + ")");
        }
    }
    for (size_t i = 0; i < d.argv.size(); i++) av.push_back(d.argv[i]);   // extra raw arguments
}

// ------------------------------------------------------------------------------------------------
struct Features {
    bool failures, throws, cfail, pluginErr, leaks, ptrs, plugins, filters, alphaNames, exampleFilters, special_xml, special_tc, clockFaults, prints, ignored, order, junit, teamcity, overflowPtr, procReal, procSyn, abWords, nested;
};

static Str pickName(Rng& r, const Features& f, const char* prefix, int idx, bool identifier) {
    // names for lifecycle style profiles are plain and unique; for selection they come from an alphabet with substring relations
    (void)identifier;
    if (f.alphaNames && f.abWords) { Str s; int n = (int)r.range(1, 5); for (int i = 0; i < n; i++) s += (char)('a' + r.below(2)); return s; }   // words over {a,b}: needles that restart inside a partial match
    if (f.alphaNames) {
        static const char* const alpha[] = { "a", "ab", "abc", "b", "Ab", "bc", "c", "abcd", "x", "xa" };
        return alpha[r.below(10)];
    }
    Str s = sfmt("%s%d", prefix, idx);
    if (f.special_xml && r.chance(2, 3)) {
        static const char* const bits[] = { "&", "<", ">", "\"", "'", "&amp;", "<a>", "]]>", " ", "&#10;", "x&y", "<!--", "%", ":" };
        int n = (int)r.range(1, 3);
        for (int i = 0; i < n; i++) { s += bits[r.below(14)]; s += (char)('a' + r.below(26)); }
    }
    if (f.special_tc && r.chance(2, 3)) {
        static const char* const bits[] = { "'", "|", "[", "]", "|n", "||", "|'", "']", "[x]", " ", "|r", "]\n" };
        int n = (int)r.range(1, 3);
        for (int i = 0; i < n; i++) { s += bits[r.below(11)]; s += (char)('a' + r.below(26)); }   // (line breaks only in messages/prints, not names)
    }
    if ((f.special_tc || f.special_xml) && r.chance(1, 10)) { size_t n = (size_t)r.range(60, 300); for (size_t i = 0; i < n; i++) s += (char)('a' + (i * 7 + n) % 26); }     // long stretches without any character that needs escaping
    return s;
}

static Str textWithSpecials(Rng& r, const Features& f, const char* base) {
    Str s = base;
    if (r.chance(1, 8)) { static const char* const pct[] = { "%d", "%s", "100%", "%%", "%s%s%s", "%08x" }; s += pct[r.below(6)]; }      // text is text: nothing in it is a format
    if (f.special_xml && r.chance(3, 4)) {
        static const char* const bits[] = { "&", "<", ">", "\"", "'", "\n", "\r", "\r\n", "&lt;", "<b>", "]]>", "&#13;", "\t", "a&&b", "\"q\"", "\xc3\xa9", "\xe2\x82\xac" };      // the last two: valid multi-byte UTF-8
        int n = (int)r.range(1, 4);
        for (int i = 0; i < n; i++) { s += bits[r.below(17)]; s += (char)('a' + r.below(26)); }
    }
    if (f.special_tc && r.chance(3, 4)) {
        static const char* const bits[] = { "'", "|", "[", "]", "\n", "\r", "|n", "||", "']", "\r\n", "[]", "|'", "'|", "\xc3\xa9", "\xe2\x82\xac", "\\", "C:\\src\\[t]", "^", "Z[\\]^_" };      // the last four: the characters around the brackets in the code table
        int n = (int)r.range(1, 4);
        for (int i = 0; i < n; i++) { s += bits[r.below(19)]; s += (char)('a' + r.below(26)); }
    }
    if ((f.special_tc || f.special_xml) && r.chance(1, 10)) { size_t n = (size_t)r.range(60, 300); for (size_t i = 0; i < n; i++) s += (char)('a' + (i * 5 + n) % 26); if (r.chance(1, 2)) s += "|'"; }
    if ((f.special_tc || f.special_xml) && r.chance(1, 8)) s += r.chance(1, 2) ? "\n" : (r.chance(1, 2) ? "\r\n" : "\n\n");      // a text that ends in line breaks
    return s;
}

void generate(uint64_t seed, const Str& profile, Desc& d, bool exceptions) {
    Rng world(mix64(seed, 1)), cfg(mix64(seed, 2)), faults(mix64(seed, 3));
    Features f; memset(&f, 0, sizeof f);
    f.failures = true; f.prints = true; f.ignored = true;
    if (profile == "lifecycle") { f.exampleFilters = true; f.throws = exceptions; f.cfail = true; f.pluginErr = true; f.plugins = true; f.clockFaults = true; f.order = true; }
    else if (profile == "selection") { f.filters = true; f.alphaNames = true; f.order = true; f.cfail = true; f.clockFaults = true; }
    else if (profile == "leaks") { f.leaks = true; f.cfail = true; f.throws = exceptions; f.pluginErr = true; f.plugins = true; }
    else if (profile == "pointers") { f.ptrs = true; f.plugins = true; f.cfail = true; f.throws = exceptions; f.overflowPtr = true; f.order = true; }
    else if (profile == "junit") { f.junit = true; f.special_xml = true; f.cfail = true; f.throws = exceptions; f.clockFaults = true; f.pluginErr = true; f.plugins = true; f.exampleFilters = true; }
    else if (profile == "teamcity") { f.teamcity = true; f.special_tc = true; f.cfail = true; f.throws = exceptions; f.order = true; f.clockFaults = true; f.exampleFilters = true; }
    else if (profile == "process") { f.procReal = true; f.throws = exceptions; f.cfail = true; f.pluginErr = true; f.plugins = true; f.leaks = true; f.order = true; }
    else if (profile == "process_syn") { f.procSyn = true; f.cfail = true; f.order = true; f.exampleFilters = true; }
    else { f.throws = exceptions; f.cfail = true; }

    if (f.alphaNames && world.chance(1, 3)) f.abWords = true;
    if ((profile == "lifecycle" || profile == "teamcity" || profile == "junit" || profile == "leaks" || profile == "pointers") && world.chance(1, 6)) f.nested = true;      // some tests run a nested test through a fixture of their own
    // swarm: per run, switch individual op kinds off
    bool enFailCpp = world.chance(9, 10), enFailC = f.cfail && world.chance(8, 10), enThrow = f.throws && world.chance(7, 10);
    bool enPrint = f.prints && world.chance(1, 2), enClock = f.clockFaults && world.chance(1, 2);
    unsigned failDensity = (unsigned)world.range(0, 6);     // out of 10: probability that a phase gets a terminating op
    bool bigLeaks = world.chance(1, 5);                    // many / large leaks per test: the report runs into its 4 KB buffer
    bool burst = world.chance(1, 4);                       // long run of consecutive failing tests (jump-buffer stack is 10 deep)
    int burstKind = (int)world.below(4);

    int nTests = (int)world.small(0, 40);
    if (burst) nTests = (int)world.range(12, 40);
    if (f.procReal) nTests = (int)world.small(1, 8);
    if (world.chance(1, 30)) nTests = 0;
    if (nTests == 0 && !world.chance(1, 3)) nTests = 1;
    int nGroups = (int)world.range(1, 6);
    bool grouped = f.junit || world.chance(2, 3);          // tests of one group registered consecutively
    int line = 10;

    // group names (unique in the non-filter profiles)
    Vec<Str> gnames, gfiles;
    bool emptyGroupName = (f.alphaNames && world.chance(1, 8)) || ((f.teamcity || f.junit) && world.chance(1, 12));      // shells built through the API may carry the group name ""
    for (int g = 0; g < nGroups; g++) { gnames.push_back(pickName(world, f, "G", g, true)); if (emptyGroupName && world.chance(1, 3)) gnames.back() = ""; gfiles.push_back(f.special_xml || f.special_tc ? pickName(world, f, "dir/f", g, false) + ".cpp" : sfmt("f%d.cpp", g)); }
    if ((f.junit || f.teamcity) && nGroups > 1) for (int g = 0; g < nGroups; g++) gnames[g] += sfmt("_%d", g);   // keep group names distinct
    if ((f.junit || f.teamcity) && nGroups > 1 && world.chance(1, 6)) {      // every group name continues the one before it (Net, Network, ...)
        if (!gnames[0].empty() && world.chance(1, 3)) gnames[0] += Str(130, 'g');      // ... and sometimes they are long: the names then agree in their first 130 characters and more
        for (int g = 1; g < nGroups; g++) if (!gnames[g - 1].empty()) gnames[g] = gnames[g - 1] + (char)('a' + g);
    }
    if (f.special_tc) for (int g = 0; g < nGroups; g++) if (world.chance(1, 2)) gfiles[g] = Str("d/it's[") + (char)('a' + g) + "]|x.cpp";

    int opLine = 1000;
    bool sameNames = (f.junit || f.teamcity) && world.chance(1, 8);
    bool emptyTestName = (f.alphaNames && world.chance(1, 8)) || ((f.teamcity || f.junit) && world.chance(1, 12));      // and the test name ""
    for (int t = 0; t < nTests; t++) {
        Group T; T.tag = "test";
        int g = grouped ? (nTests ? t * nGroups / nTests : 0) : (int)world.below((uint64_t)nGroups);
        bool ign = f.ignored && world.chance(1, 8);
        line += (int)world.range(1, 20);
        T.args.push_back(ign); T.args.push_back(line);
        T.sargs.push_back(gnames[(size_t)g]); T.sargs.push_back(pickName(world, f, "t", t, true)); if (emptyTestName && world.chance(1, 4)) T.sargs.back() = "";
        if (sameNames && t > 0 && world.chance(1, 3)) { for (size_t q = d.groups.size(); q-- > 0;) if (d.groups[q].tag == "test" && Str(d.groups[q].sarg(0)) == gnames[(size_t)g]) { T.sargs.back() = d.groups[q].sarg(1); break; } }      // the name of an earlier test of the same group (two files may define the same TEST)
        T.sargs.push_back(gfiles[(size_t)g]);
        for (int ph = 0; ph < 3; ph++) {
            int nOps = (int)world.small(0, 10);
            bool wantFail = f.failures && (faults.below(10) < failDensity);
            if (burst) wantFail = (ph == (int)(t % 3)) || faults.chance(1, 3);
            int failAt = wantFail ? (int)faults.below((uint64_t)nOps + 1) : -1;
            for (int i = 0; i <= nOps; i++) {
                if (i == failAt) {
                    Op o; o.phase = ph; o.d = ++opLine;
                    int kinds[4]; int nk = 0;
                    if (enFailCpp) kinds[nk++] = K_FAIL_CPP;
                    if (enFailC) kinds[nk++] = K_FAIL_C;
                    if (enThrow) { kinds[nk++] = K_THROW_STD; kinds[nk++] = K_THROW_FOREIGN; }
                    if (nk == 0) continue;
                    o.kind = burst && burstKind < nk && faults.chance(3, 4) ? kinds[burstKind] : kinds[faults.below((uint64_t)nk)];
                    if (o.kind == K_FAIL_CPP) { o.a = (int64_t)faults.below(N_FAILCPP_KINDS); if (o.a >= 24) o.b = (int64_t)faults.below(o.a == 28 ? N_BITS_CASES : (faults.chance(1, 2) ? N_FIXED_OPERAND_PAIRS : N_OPERAND_PAIRS)); }
                    if (o.kind == K_FAIL_C) o.a = (int64_t)faults.below(N_FAILC_KINDS);
                    if (o.kind == K_THROW_FOREIGN) o.a = (int64_t)faults.below(2);
                    o.s2 = textWithSpecials(faults, f, sfmt("tk%d_", opLine).c_str());
                    // location: mostly the test's own file below the test line; sometimes a helper above it or another file
                    if ((o.kind == K_FAIL_CPP || o.kind == K_FAIL_C)) {
                        unsigned w = (unsigned)faults.below(10);
                        if (w == 0) o.d = (int64_t)faults.range(1, line > 1 ? line - 1 : 1);                    // helper function above the test
                        else if (w == 1) o.s = f.special_tc ? Str("other|'s[y].cpp") : (f.special_xml ? Str("inc/h&<lp>\".h") : Str("helper.cpp"));
                    }
                    T.ops.push_back(o);
                    continue;
                }
                if (i == nOps) break;
                Op o; o.phase = ph; o.d = ++opLine;
                unsigned w = (unsigned)world.below(100);
                if (w < 35) { o.kind = K_PASS; o.a = (int64_t)world.below(N_PASS_KINDS); }
                else if (w < 49) o.kind = K_MARK;
                else if (w < (f.ptrs ? 54u : 50u) && f.nested && world.chance(1, 2)) { o.kind = K_NESTED_RUN; o.a = (int64_t)world.chance(1, 2); if (f.ptrs) o.b = (int64_t)world.chance(2, 3); }      // b: the nested registry has a pointer plugin of its own
                else if (w < 50) { if (enFailCpp && world.chance(1, 3)) { o.kind = K_ADD_FAILURES; static const int ns[] = { 1, 2, 3, 255, 256, 257, 512 }; o.a = ns[world.below(world.chance(1, 4) ? 7 : 3)]; o.s2 = sfmt("tk%d_", opLine); } else o.kind = K_MARK; }
                else if (w < 60 && enPrint) { o.kind = K_PRINT; o.s2 = textWithSpecials(world, f, sfmt("pr%d_", opLine).c_str()); }
                else if (w < 66 && enClock) { o.kind = K_CLOCK; static const int64_t deltas[] = { 1, 5, 100, 999, 1000, 60000, -1, -500, 4233600000LL, -4233600000LL, 0, 4294967295LL }; o.a = deltas[world.below(12)]; }
                else if (w < 90 && f.leaks) {
                    unsigned x = (unsigned)world.below(10);
                    if (x < 5) { o.kind = K_ALLOC; o.a = (int64_t)world.below(bigLeaks ? N_SLOTS : 12); o.b = (int64_t)world.below(5); o.c = world.chance(1, bigLeaks ? 6 : 40) ? world.range(65, 3000) : world.small(1, 64); }
                    else if (x < (bigLeaks ? 6u : 8u)) { o.kind = K_FREE; o.a = (int64_t)world.below(bigLeaks ? N_SLOTS : 12); }
                    else if (x < 9) { o.kind = K_REALLOC; o.a = (int64_t)world.below(bigLeaks ? N_SLOTS : 12); o.c = world.small(1, 64); if (world.chance(1, 6)) o.b = 1; }
                    else if (world.chance(1, 12)) o.kind = K_OTHER_LEAK_PLUGIN;
                    else if (!f.procReal && world.chance(1, 10)) o.kind = K_MISUSE_FREE;
                    else if (ph == 0 || world.chance(1, 2)) { if (world.chance(3, 4)) { o.kind = K_EXPECT_LEAKS; o.a = (int64_t)world.below(5); } else o.kind = K_IGNORE_LEAKS; }
                    else o.kind = K_MARK;
                }
                else if (w < 90 && f.ptrs) { o.kind = K_PTR_SET; o.a = (int64_t)world.below(world.chance(1, 2) ? 2 : N_TARGETS); o.b = (int64_t)world.below(N_VALUES); }
                else o.kind = K_MARK;
                T.ops.push_back(o);
            }
        }
        if (f.procReal) {
            // the child dies somewhere (or not at all)
            if (faults.chance(1, 2) && !T.ops.empty()) {
                size_t at = (size_t)faults.below(T.ops.size());
                Op o; o.phase = T.ops[at].phase; o.d = ++opLine;
                unsigned w2 = (unsigned)faults.below(10);
                if (w2 < 5) { o.kind = K_DIE_SIGNAL; static const int sigs[] = { 1, 2, 3, 4, 5, 6, 7, 8, 9, 10, 11, 12, 13, 14, 15, 16, 17, 18, 23, 24, 25, 26, 27, 28, 29, 30, 31 }; o.a = sigs[faults.below(27)]; }
                else if (w2 < 7) { o.kind = K_DIE_EXIT; o.a = (int64_t)faults.range(1, 255); if (faults.chance(1, 4)) o.a = (int64_t)(faults.chance(1, 2) ? 256 : 512); }
                else if (w2 < 8) o.kind = K_DIE_ABORT;
                else o.kind = K_DIE_STOP;
                T.ops.insert(T.ops.begin() + (long)at, o);
                if (o.kind == K_DIE_STOP && faults.chance(1, 3)) { Op o2 = o; o2.d = ++opLine; T.ops.insert(T.ops.begin() + (long)at, o2); }     // the child stops twice
            }
            if (faults.chance(1, 4)) { Op o; o.kind = K_W_EINTR; o.phase = PH_PROC; o.a = faults.chance(1, 3) ? faults.range(28, 36) : faults.range(1, 35); T.ops.push_back(o); }
            if (faults.chance(1, 25)) { Op o; o.kind = K_FORK_FAIL; o.phase = PH_PROC; T.ops.push_back(o); }
            else if (faults.chance(1, 20)) { Op o; o.kind = K_W_ERR; o.phase = PH_PROC; static const int errs[] = { 10 /*ECHILD*/, 22 /*EINVAL*/, 10, 1 }; o.a = errs[faults.below(4)]; T.ops.push_back(o); }      // the wait for a real child fails outright
        }
        if (f.procSyn) {
            // what fork and waitpid answer for this test
            if (faults.chance(1, 12)) { Op o; o.kind = K_FORK_FAIL; o.phase = PH_PROC; T.ops.push_back(o); }
            else {
                int n = (int)faults.small(0, 4);
                for (int i = 0; i < n; i++) {
                    Op o; o.phase = PH_PROC; unsigned w2 = (unsigned)faults.below(10);
                    if (w2 < 6) { o.kind = K_W_EINTR; unsigned z = (unsigned)faults.below(4); o.a = z == 0 ? faults.range(28, 36) : (z == 1 ? faults.range(40, 80) : faults.range(1, 27)); }
                    else { o.kind = K_W_STOP; o.a = (int64_t)faults.range(1, 31); }
                    T.ops.push_back(o);
                }
                Op o; o.phase = PH_PROC; unsigned w2 = (unsigned)faults.below(10);
                if (w2 < 4) { o.kind = K_W_EXIT; o.a = faults.chance(1, 3) ? 0 : (int64_t)faults.range(0, 255); }
                else if (w2 < 9) { o.kind = K_W_SIGNAL; o.a = (int64_t)faults.range(1, 31); o.b = (int64_t)faults.below(2); }
                else { o.kind = K_W_ERR; static const int errs[] = { 10 /*ECHILD*/, 22 /*EINVAL*/, 11 /*EAGAIN*/, 1 }; o.a = errs[faults.below(4)]; }
                T.ops.push_back(o);
            }
        }
        if (f.leaks && !f.procReal && faults.chance(1, 10)) {      // the detector is switched off right before the statement that makes the test fail: the switch-on that would have followed is never reached
            for (size_t i = 0; i < T.ops.size(); i++) if (isTerminating(T.ops[i].kind)) { Op o; o.kind = K_DETECTOR_OFF; o.phase = T.ops[i].phase; o.d = ++opLine; T.ops.insert(T.ops.begin() + (long)i, o); break; }
        }
        if (f.overflowPtr && world.chance(1, 12)) {           // push one test over the 32-entry table
            int ph = (int)world.below(3); int n = (int)world.range((int)MAX_SET - 4, (int)MAX_SET + 8);      // around the library's own limit
            Vec<Op> extra;
            for (int i = 0; i < n; i++) { Op o; o.kind = K_PTR_SET; o.phase = ph; o.d = ++opLine; o.a = (int64_t)world.below(N_TARGETS); o.b = (int64_t)world.below(N_VALUES); extra.push_back(o); }
            // insert before the first op of a later phase (ops are kept ordered by phase)
            size_t at = 0; while (at < T.ops.size() && T.ops[at].phase <= ph) at++;
            T.ops.insert(T.ops.begin() + (long)at, extra.begin(), extra.end());
        }
        d.groups.push_back(T);
    }

    if (f.ptrs && world.chance(1, 3)) {       // redirections made outside any test (from main) before the run: the table entries they leave behind are not the run's
        Group P; P.tag = "presets"; int n = (int)world.range(1, 3);
        for (int i = 0; i < n; i++) { Op o; o.kind = K_PTR_SET; o.a = (int64_t)world.below(world.chance(1, 2) ? 2 : N_TARGETS); o.b = (int64_t)world.below(N_VALUES); P.ops.push_back(o); }
        d.groups.push_back(P);
    }
    bool dupNames = false;
    if (f.plugins && world.chance(1, 2)) {
        int np = (int)world.range(1, world.chance(1, 3) ? 8 : 3);
        bool removals = world.chance(1, 3);
        dupNames = !removals && np >= 2 && world.chance(1, 6);      // two different plugins under one name: both are installed and both see every action (nothing is removed by name in such a run)
        if (dupNames) d.p["dup_plugin_names"] = 1;
        bool prefixNames = world.chance(1, 4); if (prefixNames) d.p["plugin_names_continue_one_another"] = 1;
        d.p["remove_rev"] = (int64_t)world.below(2);
        d.p["remove_absent"] = world.chance(1, 3) ? (int64_t)world.range(1, 3) : 0;     // removals of a name that is not (or no longer) installed: nothing may change
        for (int p = 0; p < np; p++) {
            Group P; P.tag = "plugin"; P.args.push_back(world.chance(5, 6)); P.args.push_back(removals && world.chance(1, 3)); { int pn = dupNames && p == np - 1 ? 0 : p; P.sargs.push_back(prefixNames ? Str("p") + Str((size_t)pn + 1, '1') : sfmt("plug%d", pn)); }      // p1, p11, p111, ...: every name continues the one before
            int n = (int)world.range(0, 3);
            for (int i = 0; i < n; i++) { Op o; o.kind = K_MARK; o.phase = world.chance(1, 2) ? PH_PRE : PH_POST; o.d = ++opLine; P.ops.push_back(o); }
            if (f.pluginErr && world.chance(1, 3)) {
                Op o; o.kind = K_PLUGIN_ERROR; o.phase = faults.chance(1, 3) ? PH_PRE : PH_POST; o.d = ++opLine; o.s2 = textWithSpecials(faults, f, sfmt("tk%d_", opLine).c_str());
                o.a = (int64_t)faults.range(1, 4);           // fires on every a-th test
                P.ops.push_back(o);
            }
            if (f.procReal && faults.chance(1, 5)) {      // the child dies inside this plugin's pre or post action
                Op o; o.phase = faults.chance(1, 2) ? PH_PRE : PH_POST; o.d = ++opLine;
                unsigned w2 = (unsigned)faults.below(3);
                if (w2 == 0) { o.kind = K_DIE_SIGNAL; static const int sigs[] = { 1, 2, 6, 9, 11, 13, 15, 17 }; o.a = sigs[faults.below(8)]; } else if (w2 == 1) { o.kind = K_DIE_EXIT; o.a = (int64_t)faults.range(1, 255); } else { o.kind = K_DIE_ABORT; if (exceptions && faults.chance(1, 2)) o.b = 1; }      // b = 1: the action throws; nothing catches it outside the test phases, the child ends in std::terminate
                P.ops.push_back(o);
            }
            if (p >= 1 && !f.procReal && !f.procSyn && !dupNames && world.chance(1, 8)) { Op o; o.kind = K_PLUGIN_REMOVE; o.phase = PH_PRE; o.d = ++opLine; o.a = world.chance(1, 3) ? (int64_t)p : (int64_t)world.below((uint64_t)p); P.ops.push_back(o); }      // this plugin's pre action removes itself, or a plugin installed before it (one that sits behind it in the chain)
            // keep ops ordered by phase
            Vec<Op> pre, post; for (size_t i = 0; i < P.ops.size(); i++) (P.ops[i].phase == PH_PRE ? pre : post).push_back(P.ops[i]);
            P.ops = pre; P.ops.insert(P.ops.end(), post.begin(), post.end());
            d.groups.push_back(P);
        }
    }

    if (f.plugins && !f.procReal && !f.procSyn && !dupNames && nTests >= 2 && world.chance(1, 4)) {
        // tests change the plugin chain while the run is under way: late plugins get installed, plugins get removed by name.
        // Plugins that take part carry only trace marks (no errors), so nothing but the action order depends on them.
        int firstPluginGroup = (int)d.groups.size(); int nStatic = 0;
        for (size_t g = 0; g < d.groups.size(); g++) if (d.groups[g].tag == "plugin") { if (firstPluginGroup > (int)g) firstPluginGroup = (int)g; nStatic++; }
        int nLate = (int)world.range(1, 3);
        for (int p = 0; p < nLate; p++) {
            Group P; P.tag = "plugin"; P.args.push_back(1); P.args.push_back(0); P.args.push_back(1); P.sargs.push_back(sfmt("late%d", p));
            { Op o; o.kind = K_MARK; o.phase = PH_PRE; o.d = ++opLine; P.ops.push_back(o); } { Op o; o.kind = K_MARK; o.phase = PH_POST; o.d = ++opLine; P.ops.push_back(o); }
            d.groups.push_back(P);
        }
        int nChanges = (int)world.range(1, 4);
        for (int c = 0; c < nChanges; c++) {
            Group& T = d.groups[world.below((uint64_t)nTests)];
            Op o; o.phase = (int)world.below(3); o.d = ++opLine;
            bool install = world.chance(3, 5);
            o.kind = install ? K_PLUGIN_INSTALL : K_PLUGIN_REMOVE;
            o.a = install ? nStatic + (int64_t)world.below((uint64_t)nLate) : (int64_t)world.below((uint64_t)(nStatic + nLate));
            size_t at = 0; while (at < T.ops.size() && T.ops[at].phase < o.phase) at++;      // first statement of that phase
            T.ops.insert(T.ops.begin() + (long)at, o);
        }
        // a static plugin that may be removed mid-run keeps only its marks
        for (size_t g = 0; g < d.groups.size(); g++) if (d.groups[g].tag == "plugin") { Vec<Op> keep; for (size_t i = 0; i < d.groups[g].ops.size(); i++) if (d.groups[g].ops[i].kind == K_MARK) keep.push_back(d.groups[g].ops[i]); d.groups[g].ops = keep; }
    }
    if (f.filters && cfg.chance(3, 4)) {
        int nf = (int)cfg.range(1, 5);
        static const char* const alpha[] = { "a", "ab", "abc", "b", "Ab", "bc", "c", "abcd", "x", "xa", "zz", "A", "" };
        for (int i = 0; i < nf; i++) {
            Group F; F.tag = "filter";
            int form = cfg.chance(1, 5) ? (cfg.chance(1, 3) ? (cfg.chance(1, 3) ? 3 : 2) : 1) : 0;
            F.args.push_back(form == 0 ? (int64_t)cfg.below(2) : 0);   // isName
            F.args.push_back(form >= 2 ? 1 : (int64_t)cfg.below(2));   // strict
            F.args.push_back(form >= 2 ? 0 : (int64_t)cfg.chance(1, 3)); // invert
            F.args.push_back(form); F.args.push_back((int64_t)cfg.below(2));
            if (f.abWords) { for (int q = 0; q < 2; q++) { Str wd; int n = (int)cfg.range(q == 0 && form == 0 ? 0 : 1, 4); for (int k = 0; k < n; k++) wd += (char)('a' + cfg.below(2)); F.sargs.push_back(wd); } }
            else { F.sargs.push_back(alpha[cfg.below(form == 0 ? 13 : 12)]); F.sargs.push_back(alpha[cfg.below(12)]); }
            d.groups.push_back(F);
        }
    }
    if (f.exampleFilters && nTests > 0 && cfg.chance(1, 4)) {     // filters built from names that exist, so that whole groups get filtered out
        int nf = (int)cfg.range(1, 3);
        for (int i = 0; i < nf; i++) {
            const Group& T = d.groups[cfg.below((uint64_t)nTests)];
            Group F; F.tag = "filter";
            bool isName = cfg.chance(1, 3);
            F.args.push_back(isName); F.args.push_back((int64_t)cfg.below(2)); F.args.push_back((int64_t)cfg.chance(1, 2)); F.args.push_back(0); F.args.push_back(0);
            Str pat = isName ? T.sarg(1) : T.sarg(0);
            if (!F.args[1] && pat.size() > 2 && cfg.chance(1, 2)) pat = pat.substr(0, pat.size() - 1);
            if (pat.empty() || pat[0] == '-') continue;
            F.sargs.push_back(pat); F.sargs.push_back("");
            d.groups.push_back(F);
        }
    }

    // configuration
    if ((profile == "pointers" || profile == "lifecycle") && cfg.chance(1, 8)) d.p["static_wrapper"] = cfg.range(1, 2);
    if ((profile == "pointers" || profile == "lifecycle" || profile == "selection" || profile == "teamcity" || profile == "junit") && cfg.chance(1, 8)) d.p["prologue"] = cfg.range(1, 3);      // 3: the earlier invocation shuffles
    d.p["steer"] = f.leaks ? 1 : 0;      // profiles that leave blocks behind run on the residue-steered platform heap (bucket membership is then a function of the seed)
    if (f.leaks && cfg.chance(1, 4)) d.p["bucket"] = (int64_t)cfg.below(73);      // every tracked block of the run lands in one bucket of the detector's table
    d.p["repeat"] = cfg.chance(1, 3) ? cfg.range(1, burst ? 2 : 5) : 0;
    d.p["repeat_attached"] = (int64_t)cfg.below(2);
    if (d.pi("repeat") == 2 && cfg.chance(1, 2)) d.p["repeat_attached"] = 2;
    if (f.order) {
        d.p["reverse"] = cfg.chance(1, 5);
        unsigned s = (unsigned)cfg.below(10);
        if (s < 2) { d.p["shuffle"] = 1; static const int64_t seeds[] = { 1, 2, 3, 7, 42, 1000, 65535, 4294967295LL, 2147483647LL, 123456789 }; d.p["shuffle_seed"] = cfg.chance(1, 2) ? seeds[cfg.below(10)] : (int64_t)cfg.range(1, 4294967295LL); d.p["shuffle_attached"] = (int64_t)cfg.below(2); }
        else if (s < 3) d.p["shuffle"] = 2;
    }
    d.p["run_ignored"] = f.ignored && cfg.chance(1, 5);
    d.p["verbose"] = cfg.chance(1, 4) ? 1 : (cfg.chance(1, 25) ? 2 : 0);
    d.p["color"] = cfg.chance(1, 8);
    d.p["use_ci"] = cfg.chance(1, 4);
    if (profile == "process" && cfg.chance(1, 6)) d.p["crash_on_fail"] = 1;      // -f together with -p: a failing check crashes the child, never the runner
    if (f.junit) { d.p["output"] = 3; if (cfg.chance(1, 2)) d.sp["package"] = pickName(cfg, f, "pk", 0, false); if (d.pi("verbose") == 2) d.p["verbose"] = 1; }
    else if (f.teamcity || (f.procReal && cfg.chance(1, 4))) d.p["output"] = 4;      // (a quarter of the real separate-process runs report through TeamCity)
    else if (f.leaks && !f.procReal && cfg.chance(1, 8)) d.p["output"] = 3;      // an output that allocates between the tests (JUnitTestOutput keeps a node per test): such a block belongs to no test
    else d.p["output"] = cfg.chance(1, 6) ? cfg.range(1, 2) : 0;
    if (f.procReal || f.procSyn) { d.p["separate"] = 1; d.p["synthetic"] = f.procSyn; if (cfg.chance(1, 3)) { static const int es[] = { 28 /*ENOSPC*/, 9 /*EBADF*/, 11 /*EAGAIN*/, 32 /*EPIPE*/, 10 /*ECHILD*/, 5 /*EIO*/ }; d.p["errno_noise"] = es[cfg.below(6)]; } }
    if (profile == "selection" && d.pi("output") == 0 && cfg.chance(1, 3)) d.p["via_api"] = 1;
    if (d.pi("via_api") && cfg.chance(1, 3)) d.p["asked_before"] = cfg.range(1, 4);      // every test was asked shouldRun() while the filter objects were still plain; they are switched to strict / inverted in place afterwards
    if (d.pi("via_api") && exceptions && cfg.chance(1, 6)) d.p["aborted_run"] = 1;      // an earlier run of the same registry object was left by an exception (thrown by a plugin before the first selected test)
    if (d.pi("via_api") && d.pi("run_ignored") && cfg.chance(1, 3)) d.p["early_ri"] = 1;      // run-ignored is switched on at the registry before the tests are registered
    if (d.pi("via_api") && d.pi("run_ignored") && !d.pi("early_ri") && d.pi("repeat") >= 2 && cfg.chance(1, 2)) d.p["late_ri"] = cfg.range(1, d.pi("repeat") - 1);   // run-ignored switched on between two repetitions
    d.p["rand_mode"] = cfg.chance(1, 2) ? 0 : cfg.range(1, 4);
    static const int64_t starts[] = { 0, 1, 1000, 1700000000000LL, 4294967290LL, 4294967296LL, 9223372036854775000LL, 86399999 };
    d.p["clock_start"] = starts[cfg.below(8)];
    d.p["clock_step"] = cfg.chance(1, 3) ? 0 : cfg.range(1, 3);
}

}  // namespace rs
