// runsim/runsim.h - vocabulary and shared state of the whole-run simulator.
#ifndef VERIF_RUNSIM_H
#define VERIF_RUNSIM_H
#include "../core/seams.h"
#include "../core/driver.h"
#include "CppUTest/TestPlugin.h"

namespace rs {
using namespace vf;

enum Kind {
    K_NONE = 0,
    K_MARK,          // trace only
    K_PASS,          // a = passing macro kind
    K_FAIL_CPP,      // a = failing C++-style macro kind; d = line; s = file override; s2 = token/text      (terminating)
    K_FAIL_C,        // a = failing C-style macro kind                                                      (terminating)
    K_THROW_STD,     // s2 = what()                                                                         (terminating)
    K_THROW_FOREIGN, // a = 0 int, 1 struct                                                                 (terminating)
    K_PRINT,         // s2 = text
    K_CLOCK,         // a = delta ms (may be negative)
    K_ALLOC,         // a = slot, b = family (0 new,1 new[],2 malloc,3 new nolocation,4 new[] nolocation), c = size
    K_FREE,          // a = slot
    K_REALLOC,       // a = slot, c = size (malloc family only); b = 1: the platform realloc fails for this call
    K_EXPECT_LEAKS,  // a = n
    K_IGNORE_LEAKS,
    K_PTR_SET,       // a = target, b = value index
    K_PLUGIN_ERROR,  // plugin post action: adds a failure; s2 = token
    // separate-process mode (C11): ways the child dies inside a phase (real fork) ...
    K_DIE_SIGNAL,    // a = signal: raise(a)
    K_DIE_EXIT,      // a = status: _exit(a)
    K_DIE_ABORT,     // abort()
    K_DIE_STOP,      // raise(SIGSTOP): the parent sees a stopped child, continues it, the test goes on
    // ... and what the parent's fork/waitpid seams answer for this test (phase PH_PROC; synthetic or injected before the real call)
    K_FORK_FAIL,
    K_W_EINTR,       // a = how many consecutive EINTR results
    K_W_ERR,         // a = errno (not EINTR)
    K_W_STOP,        // a = signal: synthetic 'stopped' status
    K_W_EXIT,        // a = exit status: synthetic terminal status
    K_W_SIGNAL,      // a = signal, b = core flag: synthetic terminal status
    // plugin chain changes made by a test while the run is under way (C17)
    K_PLUGIN_INSTALL, // a = plugin index (a plugin group with args[2] = 1 is 'late': not installed before the run)
    K_PLUGIN_REMOVE,  // a = plugin index: TestRegistry::removePluginByName
    K_OTHER_LEAK_PLUGIN, // the test builds and destroys a second MemoryLeakWarningPlugin over a detector of its own (as the library's own tests do)
    K_ADD_FAILURES,   // a = n: n failures recorded through UtestShell::addFailure without leaving the phase; d = line; s2 = token
    K_NESTED_RUN,     // the test builds a TestTestingFixture and runs a nested test through it (a = 1: the nested test fails), then goes on: whatever it records afterwards is its own
    K_DETECTOR_OFF,   // the test switches the leak detector off (as a test may around code it does not want tracked) and fails before it switches it on again
    K_MISUSE_FREE,    // the test releases an address that was never allocated: the detector fails it on the spot (its report is about that release and nothing else)
    K_COUNT
};
const char* kindName(int k);
int kindFromName(const char* s);

enum { PH_SETUP = 0, PH_BODY = 1, PH_TEARDOWN = 2, PH_PRE = 3, PH_POST = 4, PH_PROC = 5 };
enum { N_SLOTS = 48, N_TARGETS = 8, N_VALUES = 6, MAX_SET = SetPointerPlugin::MAX_SET };      // the documented limit is the library's own constant
enum { N_PASS_KINDS = 15, N_FAILCPP_KINDS = 35, N_FAILC_KINDS = 20 };
// Operand pairs for the string comparisons of K_FAIL_CPP kinds 24..27 (b = pair): the operands differ first at index 'at'. Several pairs differ only in
// bytes whose printed forms coincide (every byte above 0x7f is rendered alike), contain control characters, are empty or long.
struct OperandPair { const char* expected; const char* actual; int at; };
// Operands for the bit comparison of K_FAIL_CPP kind 28 (b = case): width in bytes, expected, actual, mask
struct BitsCase { int bytes; unsigned long expected, actual, mask; };
enum { N_BITS_CASES = 12 };
inline const BitsCase& bitsCase(int64_t i) {
    static const BitsCase t[N_BITS_CASES] = {
        { 1, 0x80UL, 0x00UL, 0xffUL }, { 2, 0x8000UL, 0x0000UL, 0xffffUL }, { 4, 0x80000000UL, 0UL, 0xffffffffUL }, { 8, 0x8000000000000000UL, 0UL, ~0UL },
        { 1, 0xa5UL, 0x5aUL, 0xf0UL }, { 2, 0xa5a5UL, 0x5a5aUL, 0xf0f0UL }, { 4, 0xa5a5a5a5UL, 0x5a5a5a5aUL, 0xf0f0f0f0UL }, { 8, 0xa5a5a5a5a5a5a5a5UL, 0x5a5a5a5a5a5a5a5aUL, 0xf0f0f0f0f0f0f0f0UL },
        { 1, 1UL, 0UL, 1UL }, { 2, 0x0100UL, 0UL, 0x0100UL }, { 4, 0x00010000UL, 0UL, 0x00ff0000UL }, { 8, 0x0000000100000000UL, 0UL, 0x000000ff00000000UL } };
    return t[(size_t)(i < 0 ? 0 : i) % N_BITS_CASES];
}
enum { N_FIXED_OPERAND_PAIRS = 12, N_OPERAND_PAIRS = 12 + 130 };      // the pairs behind the table: two strings of n characters (n = 0..129) that differ in their last one, so that messages of every length around the formatter's internal buffer occur
inline const OperandPair& operandPair(int64_t i) {
    static char longA[400], longB[400]; static bool init = false;
    if (!init) { init = true; for (int k = 0; k < 399; k++) longA[k] = longB[k] = (char)(0x80 + k % 64); longA[398] = (char)0xf1; longB[398] = (char)0xf2; longA[399] = longB[399] = 0; }
    static const OperandPair t[N_FIXED_OPERAND_PAIRS] = {
        { "\x80", "\x81", 0 }, { "caf\xc3\xa9", "caf\xc3\xa8", 4 }, { "a\x01z", "a\x02z", 1 }, { "", "x", 0 }, { "same\xffprefix\xfe", "same\xffprefix\xfd", 11 },
        { "line\nbreak", "line\rbreak", 4 }, { longA, longB, 398 }, { "abc", "abd", 2 }, { "\xe2\x82\xac 5", "\xe2\x82\xad 5", 2 }, { "tail\x90", "tail\x90\x91", 5 },
        { "a\x01", "a\\x01", 1 },
        { "x\nA\tq", "x\nB\tq", 2 } };      // the shared prefix holds a character that is printed as two: the position is the one in the operands, not in their printed forms      // a control character against the four characters of its own escape: the printed forms are the same text
    size_t k = (size_t)(i < 0 ? 0 : i) % N_OPERAND_PAIRS;
    if (k >= N_FIXED_OPERAND_PAIRS) {
        static char e[130][134], a[130][134]; static OperandPair dyn[130]; static bool dynInit = false;
        if (!dynInit) { dynInit = true; for (int n = 0; n < 130; n++) { for (int c = 0; c < n; c++) e[n][c] = a[n][c] = (char)('a' + c % 26); e[n][n] = 'X'; a[n][n] = 'Y'; e[n][n + 1] = 0; if (n % 2 == 0) { a[n][n + 1] = 'Z'; a[n][n + 2] = 0; } else a[n][n + 1] = 0;      /* (the operands of half the pairs differ in length too, so that the message takes every length, odd and even) */ dyn[n].expected = e[n]; dyn[n].actual = a[n]; dyn[n].at = n; } }
        return dyn[k - N_FIXED_OPERAND_PAIRS];
    }
    return t[k];
}

inline bool isTerminating(int k) { return k == K_FAIL_CPP || k == K_FAIL_C || k == K_THROW_STD || k == K_THROW_FOREIGN || k == K_MISUSE_FREE; }

// events recorded while the real framework runs
enum EvType { E_TESTS_START = 1, E_GROUP_START, E_TEST_START, E_TEST_END, E_GROUP_END, E_TESTS_END, E_OP, E_PROBE, E_FAILURE };
struct Ev { int type, test, phase, op, plugin; int64_t x; long depth; bool ctxOk; };
struct FailRec { Str testName, file, msg, testFile; size_t line, testLine; size_t atEvent; };
struct Summary { size_t tests, run, checks, ignored, filtered, failures; bool isFailure; };

struct Obs {           // everything observed in one run
    Vec<Ev> ev; Vec<FailRec> fails; Vec<Summary> sums;
    int ret; bool parsedOk; long depthAtStart, depthAtEnd, maxDepth; bool ctxOkAtEnd;
    int64_t finalProbe; bool slotLeftovers;
    Str console; Vec<SimFile> files; uint64_t writesAfterClose, badHandle;
    Str terminal;                  // real separate-process mode: the bytes in the order a terminal would have received them - what the parent flushed, what each child flushed (a child starts with a copy of whatever the parent had printed and not yet flushed when it forked), and at the end what was still unflushed
    Vec<int64_t> reallocFaultUnused; // lines (op.d) of realloc ops whose injected platform-realloc failure never fired: that reallocation made no platform realloc call
    Str childConsole;              // what forked children flushed to the console before they ended (real separate-process mode)
    Vec<int64_t> procLog;          // C11: (test, what, value) triples: 1 fork, 2 waitpid call, 3 kill(sig), 4 script exhausted (hang), 5 fork failed
    Str finalReport; int pluginCount, pluginCountExpected; int removedStillFound;
    Vec<Str> printedChunks;        // every text the framework handed to the JUnit output's print(const char*), call by call (what <system-out> is made of)
    Str wrapperProblems;           // what went wrong around the static RunAllTests entry point (epilogue of some runs)
    Obs() : ret(0), parsedOk(true), depthAtStart(0), depthAtEnd(0), maxDepth(0), ctxOkAtEnd(true), finalProbe(0), slotLeftovers(false), pluginCount(0), pluginCountExpected(0), removedStillFound(0), writesAfterClose(0), badHandle(0) {}
};

struct Config {        // derived from Desc.p
    int repeat, reverse, shuffle, runIgnored, verbose, color, output, separate; uint64_t shuffleSeed; Str package;
    bool hasExceptions;
};
Config configOf(const Desc& d);
void buildArgv(const Desc& d, Vec<Str>& av);

void generate(uint64_t seed, const Str& profile, Desc& d, bool exceptions);
void executeRun(const Desc& d, Obs& o);
void checkOracles(const Desc& d, const Obs& o, RunResult& r);
Str normalizeAddrs(const Str& in);

}  // namespace rs
#endif
