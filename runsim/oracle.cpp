// runsim/oracle.cpp - reference model of a whole run and the property oracles evaluated over the recorded history.
#include "runsim.h"
#include "../core/leakreport.h"
#include "CppUTest/MemoryLeakDetector.h"
#include <expat.h>
#include <algorithm>

namespace rs {

// ------------------------------------------------------------------ reference model
struct ExpOp { int phase, op, plugin; };
struct ExpFail { Str token, file, testName; size_t line; bool anyLocation; int kind; int diffAt, pair, bits; ExpFail() : line(0), anyLocation(false), kind(0), diffAt(-1), pair(-1), bits(-1) {} };   // kind: 0 check, 1 exception, 2 plugin, 3 ptr overflow, 4 leak
struct MSlot { bool live; int family; size_t size; Str file; size_t line; int ownerSeq; };
struct ExpLeak { size_t size; Str file; size_t line; Str type; };
struct ModelState {
    MSlot slots[N_SLOTS]; int seq;
    Vec<int> pluginCalls;
    Vec<int> chain; bool chainInit;      // scripted plugins currently installed, head (installed last) first
    const Vec<int64_t>* reallocFaultUnused;
    ModelState() : seq(0), chainInit(false), reallocFaultUnused(0) { for (int i = 0; i < N_SLOTS; i++) slots[i].live = false; }
};
struct ExpTest { Vec<ExpOp> ops; Vec<ExpFail> fails; size_t checks; bool leakFailure; Vec<ExpLeak> leaks; bool chainChanged;
                 int childEnd /* 0 normal, 1 killed by signal, 2 _exit */, childValue, childStops; };

static Str formattedName(const Group& T) { return Str("TEST(") + T.sarg(0) + ", " + T.sarg(1) + ")"; }

static bool filterMatch(const char* pattern, const char* target, bool strict, bool invert) {
    bool m = strict ? strcmp(pattern, target) == 0 : strstr(target, pattern) != 0;
    return invert ? !m : m;
}
struct MFilter { Str pattern; bool strict, invert; };
static void collectFilters(const Desc& d, Vec<MFilter>& gf, Vec<MFilter>& nf) {
    for (size_t g = 0; g < d.groups.size(); g++) {
        const Group& G = d.groups[g]; if (G.tag != "filter") continue;
        int form = (int)G.arg(3);
        MFilter a; a.strict = G.arg(1) != 0; a.invert = G.arg(2) != 0; a.pattern = G.sarg(0);
        if (form == 0) { (G.arg(0) ? nf : gf).push_back(a); }
        else { MFilter b = a; b.pattern = G.sarg(1); if (form >= 2) { a.strict = b.strict = true; a.invert = b.invert = false; } gf.push_back(a); nf.push_back(b); }
    }
}
static bool selectedBy(const Vec<MFilter>& fs, const char* target) {
    if (fs.empty()) return true;
    for (size_t i = 0; i < fs.size(); i++) if (filterMatch(fs[i].pattern.c_str(), target, fs[i].strict, fs[i].invert)) return true;
    return false;
}

static const char* familyType(int fam) { return (fam == 0 || fam == 3) ? "new" : ((fam == 1 || fam == 4) ? "new []" : "malloc"); }

// what one execution of test t must look like, given the model state (slots shared across tests, plugin call counters)
static void modelTest(const Desc& d, const Vec<int>& testGroups, const Vec<int>& pluginGroups, int t, ModelState& ms, ExpTest& x) {
    const Group& T = d.groups[(size_t)testGroups[(size_t)t]];
    x = ExpTest(); x.checks = 0; x.leakFailure = false; x.chainChanged = false; x.childEnd = 0; x.childValue = 0; x.childStops = 0;
    int mySeq = ++ms.seq;
    // plugin pre actions: installation-reversed order (the chain, head first)
    if (!ms.chainInit) { ms.chainInit = true; for (size_t p = pluginGroups.size(); p-- > 0;) { const Group& P = d.groups[(size_t)pluginGroups[p]]; if (!P.arg(1) && !P.arg(2)) ms.chain.push_back((int)p); } }
    Vec<int> selfRemoved;
    Vec<int> chainAtStart = ms.chain;      // (a pre action may take a plugin behind it out of the chain: it is erased from this walk list as well and sees neither action)
    for (size_t ci = 0; ci < chainAtStart.size(); ci++) {
        size_t p = (size_t)chainAtStart[ci];
        const Group& P = d.groups[(size_t)pluginGroups[p]];
        if (!P.arg(0, 1)) continue;
        for (size_t i = 0; i < P.ops.size(); i++) if (P.ops[i].phase == PH_PRE) {
            const Op& o = P.ops[i];
            if (o.kind == K_PLUGIN_REMOVE) {
                int q = (int)o.a; bool behind = false;
                for (size_t cj = ci + 1; cj < chainAtStart.size(); cj++) if (chainAtStart[cj] == q) { behind = true; chainAtStart.erase(chainAtStart.begin() + (long)cj); break; }
                Vec<int>::iterator it = std::find(ms.chain.begin(), ms.chain.end(), q);
                if (it != ms.chain.end() && q == (int)p) { ms.chain.erase(it); selfRemoved.push_back(q); }      // a plugin that takes itself out during its own pre action: the walk goes on behind it (every other plugin sees this test as usual), it has no post action, and is gone afterwards
                if (it != ms.chain.end() && q != (int)p) { ms.chain.erase(it); if (!behind) x.chainChanged = true; }      // a plugin that already had its pre action loses its post action: the test's own doing, not compared
            }
            if (o.kind == K_PLUGIN_ERROR) {          // a plugin may also report an error before the test starts; the test still runs
                if (o.a > 1 && (ms.pluginCalls[p] % (int)o.a) != 0) continue;
                ExpFail f; f.token = o.s2; f.file = "plugin.cpp"; f.line = (size_t)o.d; f.testName = formattedName(T); f.anyLocation = false; f.kind = 2;
                x.fails.push_back(f);
            }
            ExpOp e = { PH_PRE, (int)i, (int)p }; x.ops.push_back(e);
            if (o.kind == K_DIE_SIGNAL && !(o.a == 17 || o.a == 18 || o.a == 23 || o.a == 28)) { x.childEnd = 1; x.childValue = (int)o.a; return; }
            if (o.kind == K_DIE_ABORT) { x.childEnd = 1; x.childValue = 6; return; }
            if (o.kind == K_DIE_EXIT) { x.childEnd = 2; x.childValue = (int)(o.a & 0xff); return; }
        }
    }
    int ptrSets = 0; size_t expectLeaks = 0; bool ignoreLeaks = false;
    bool setupDone = true;
    for (int ph = 0; ph < 3; ph++) {
        if (ph == PH_BODY && !setupDone) continue;
        for (size_t i = 0; i < T.ops.size(); i++) {
            const Op& o = T.ops[i];
            if (o.phase != ph) continue;
            ExpOp e = { ph, (int)i, -1 }; x.ops.push_back(e);
            bool term = false;
            const char* file = o.s.empty() ? T.sarg(2) : o.s.c_str();
            switch (o.kind) {
            case K_PASS: if (o.a != 9) x.checks++; break;
            case K_FAIL_CPP: case K_FAIL_C: {
                if (d.pi("crash_on_fail")) { x.childEnd = 1; x.childValue = 6; return; }      // -f: the failing check ends the (child) process on the spot by abort(); its parent sees a child killed by SIGABRT
                x.checks++;
                ExpFail f; f.token = o.s2; f.file = file; f.line = (size_t)o.d; f.testName = formattedName(T); f.anyLocation = false; f.kind = 0;
                if (o.kind == K_FAIL_CPP && o.a == 28) f.bits = (int)(o.b % N_BITS_CASES);
                if (o.kind == K_FAIL_CPP && (o.a == 24 || o.a == 25 || o.a == 27)) { f.diffAt = operandPair(o.b).at; f.pair = (int)(o.b % N_OPERAND_PAIRS); }
                x.fails.push_back(f); term = true; break;
            }
            case K_MISUSE_FREE: {      // reported by the detector through the leak plugin's reporter: one failure at the test itself, the phase is left
                ExpFail f; f.token = "Deallocating non-allocated memory"; f.line = 0; f.testName = formattedName(T); f.anyLocation = true; f.kind = 5;
                x.fails.push_back(f); term = true; break;
            }
            case K_ADD_FAILURES: {       // recorded, printed, and the phase goes on
                for (int64_t n = 0; n < o.a; n++) { ExpFail f; f.token = o.s2; f.file = file; f.line = (size_t)o.d; f.testName = formattedName(T); f.anyLocation = false; f.kind = 0; x.fails.push_back(f); }
                break;
            }
            case K_THROW_STD: case K_THROW_FOREIGN: {
                ExpFail f; f.token = o.kind == K_THROW_STD ? o.s2 : Str("Unexpected exception of unknown type was thrown"); f.file = T.sarg(2); f.line = (size_t)T.arg(1);
                f.testName = formattedName(T); f.anyLocation = false; f.kind = 1;
                x.fails.push_back(f); term = true; break;
            }
            case K_ALLOC: {
                MSlot& s = ms.slots[o.a % N_SLOTS];
                if (!s.live) { s.live = true; s.family = (int)o.b; s.size = (size_t)o.c; s.ownerSeq = mySeq;
                    if (o.b <= 2) { s.file = file; s.line = (size_t)o.d; } else { s.file = "<unknown>"; s.line = 0; } }
                break;
            }
            case K_FREE: ms.slots[o.a % N_SLOTS].live = false; break;
            case K_REALLOC: {
                MSlot& s = ms.slots[o.a % N_SLOTS];
                bool failed = o.b == 1 && !(ms.reallocFaultUnused && std::find(ms.reallocFaultUnused->begin(), ms.reallocFaultUnused->end(), o.d) != ms.reallocFaultUnused->end());      // (a fault that the simulated platform never got to deliver is no fault)
                if (s.live && s.family == 2 && !failed) { s.size = (size_t)o.c; s.file = file; s.line = (size_t)o.d; s.ownerSeq = mySeq; }   // the block is re-registered by this test
                break;
            }
            case K_EXPECT_LEAKS: expectLeaks = (size_t)o.a; break;
            case K_IGNORE_LEAKS: ignoreLeaks = true; break;
            case K_PLUGIN_INSTALL: { int p = (int)o.a; if (p >= 0 && (size_t)p < pluginGroups.size() && std::find(ms.chain.begin(), ms.chain.end(), p) == ms.chain.end()) { ms.chain.insert(ms.chain.begin(), p); x.chainChanged = true; } break; }
            case K_PLUGIN_REMOVE: { int p = (int)o.a; Vec<int>::iterator it = std::find(ms.chain.begin(), ms.chain.end(), p); if (it != ms.chain.end()) { ms.chain.erase(it); x.chainChanged = true; } break; }
            case K_DIE_SIGNAL:
                if (o.a == 17 || o.a == 18 || o.a == 23 || o.a == 28) break;      // default action of CHLD, CONT, URG, WINCH: ignore
                x.childEnd = 1; x.childValue = (int)o.a; return;
            case K_DIE_ABORT: x.childEnd = 1; x.childValue = 6; return;
            case K_DIE_EXIT: x.childEnd = 2; x.childValue = (int)(o.a & 0xff); return;
            case K_DIE_STOP: x.childStops++; break;
            case K_NESTED_RUN: if (o.b & 1) ptrSets = 0; break;      // the nested registry's pointer plugin restores, after the nested test, everything recorded so far: the table is empty again
            case K_PTR_SET:
                if (ptrSets >= MAX_SET) {
                    probe("ptr_table_overflow");
                    x.checks++;
                    ExpFail f; f.token = "Maximum number of function pointers installed!"; f.line = 0; f.testName = formattedName(T); f.anyLocation = true; f.kind = 3;
                    x.fails.push_back(f); term = true;
                } else ptrSets++;
                break;
            default: break;
            }
            if (term) { if (ph == PH_SETUP) setupDone = false; break; }
        }
    }
    // plugin post actions: the exact reverse of the pre order
    for (size_t ci = chainAtStart.size(); ci-- > 0;) {
        size_t p = (size_t)chainAtStart[ci];
        const Group& P = d.groups[(size_t)pluginGroups[p]];
        if (!P.arg(0, 1)) continue;
        if (std::find(selfRemoved.begin(), selfRemoved.end(), (int)p) != selfRemoved.end()) continue;
        for (size_t i = 0; i < P.ops.size(); i++) {
            const Op& o = P.ops[i]; if (o.phase != PH_POST) continue;
            if (o.kind == K_PLUGIN_ERROR) {
                if (o.a > 1 && (ms.pluginCalls[p] % (int)o.a) != 0) continue;
                ExpOp e = { PH_POST, (int)i, (int)p }; x.ops.push_back(e);
                ExpFail f; f.token = o.s2; f.file = "plugin.cpp"; f.line = (size_t)o.d; f.testName = formattedName(T); f.anyLocation = false; f.kind = 2;
                x.fails.push_back(f);
            } else { ExpOp e = { PH_POST, (int)i, (int)p }; x.ops.push_back(e);
                if (o.kind == K_DIE_SIGNAL && !(o.a == 17 || o.a == 18 || o.a == 23 || o.a == 28)) { x.childEnd = 1; x.childValue = (int)o.a; return; }
                if (o.kind == K_DIE_ABORT) { x.childEnd = 1; x.childValue = 6; return; }
                if (o.kind == K_DIE_EXIT) { x.childEnd = 2; x.childValue = (int)(o.a & 0xff); return; } }
        }
        ms.pluginCalls[p]++;
    }
    // leak verdict (leak plugin's post action runs after the scripted plugins')
    for (int i = 0; i < N_SLOTS; i++) if (ms.slots[i].live && ms.slots[i].ownerSeq == mySeq) {
        ExpLeak l; l.size = ms.slots[i].size; l.file = ms.slots[i].file; l.line = ms.slots[i].line; l.type = familyType(ms.slots[i].family); x.leaks.push_back(l);
    }
    if (x.fails.empty() && !ignoreLeaks && x.leaks.size() != expectLeaks) {
        x.leakFailure = true;
        ExpFail f; f.token = x.leaks.empty() ? Str("No memory leaks were detected.") : Str("Memory leak(s) found."); f.file = T.sarg(2); f.line = (size_t)T.arg(1); f.testName = formattedName(T); f.anyLocation = false; f.kind = 4;
        x.fails.push_back(f);
    }
}

// ------------------------------------------------------------------ small text helpers
static size_t countOcc(const Str& hay, const Str& needle) {
    if (needle.empty()) return 0;
    size_t n = 0, pos = 0;
    while ((pos = hay.find(needle, pos)) != Str::npos) { n++; pos += needle.size(); }
    return n;
}
static Json sigOf(const char* k, const Str& v) { Json j = Json::O(); j.set(k, Json::S(v)); return j; }
static Json sigOf(const char* k, const char* v) { Json j = Json::O(); j.set(k, Json::S(v)); return j; }

struct ParsedSummary { bool ok; bool okWord; bool ranNothing; long failures, tests, run, checks, ignored, filtered; };
static void parseSummaries(const Str& console, Vec<ParsedSummary>& out) {
    size_t pos = 0;
    while (pos < console.size()) {
        size_t a = console.find(" tests, ", pos);
        if (a == Str::npos) break;
        // go back to the opening "OK (" or "Errors ("
        size_t ok = console.rfind("OK (", a), er = console.rfind("Errors (", a);
        size_t start = Str::npos; bool okWord = false;
        if (ok != Str::npos && (er == Str::npos || ok > er)) { start = ok; okWord = true; }
        else if (er != Str::npos) { start = er; okWord = false; }
        if (start == Str::npos || start < pos) { pos = a + 8; continue; }
        ParsedSummary s; memset(&s, 0, sizeof s); s.okWord = okWord;
        const char* p = console.c_str() + start + (okWord ? 4 : 8);
        int n = 0;
        if (!okWord) {
            if (!strncmp(p, "ran nothing, ", 13)) { s.ranNothing = true; p += 13; }
            else if (sscanf(p, "%ld failures, %n", &s.failures, &n) >= 1 && n > 0) p += n;
            else { pos = a + 8; continue; }
        }
        long ms = 0; n = 0;
        if (sscanf(p, "%ld tests, %ld ran, %ld checks, %ld ignored, %ld filtered out, %ld ms)%n", &s.tests, &s.run, &s.checks, &s.ignored, &s.filtered, &ms, &n) >= 6 && n > 0) { s.ok = true; out.push_back(s); }
        pos = a + 8;
    }
}

static Str renderBits(unsigned long v, unsigned long m, int bytes) {
    Str r;
    for (int i = bytes * 8 - 1; i >= 0; i--) { r += ((m >> i) & 1) ? (((v >> i) & 1) ? '1' : '0') : 'x'; if (i % 8 == 0 && i != 0) r += ' '; }
    return r;
}
// how a failure message shows a string operand: printable ASCII as it is, the seven control characters with a letter escape by that escape, every other byte as \xHH
static Str renderOperand(const char* p) {
    Str r;
    for (; *p; p++) {
        unsigned char c = (unsigned char)*p;
        if (c >= 7 && c <= 13) { r += '\\'; r += "abtnvfr"[c - 7]; }
        else if (c < 0x20 || c >= 0x7f) r += sfmt("\\x%02X", c);
        else r += (char)c;
    }
    return r;
}

// ------------------------------------------------------------------ TeamCity decoder (written from the service message grammar)
struct TcMsg { Str name; Vec<std::pair<Str, Str> > attrs; };
static bool decodeTeamCity(const Str& s, Vec<TcMsg>& out, Str& err) {
    size_t pos = 0;
    const Str tag = "##teamcity[";
    while ((pos = s.find(tag, pos)) != Str::npos) {
        size_t p = pos + tag.size();
        TcMsg m;
        while (p < s.size() && s[p] != ' ' && s[p] != ']') m.name += s[p++];
        bool closed = false;
        while (p < s.size()) {
            if (s[p] == ']') { closed = true; p++; break; }
            if (s[p] != ' ') { err = sfmt("value ended early in %s| stray character 0x%02x after a value at offset %zu", m.name.c_str(), (unsigned char)s[p], p); return false; }
            p++;
            Str key; while (p < s.size() && s[p] != '=') key += s[p++];
            if (p + 1 >= s.size() || s[p + 1] != '\'') { err = "attribute without quoted value in " + m.name + "| key " + key; return false; }
            p += 2;
            Str val; bool term = false;
            while (p < s.size()) {
                char c = s[p];
                if (c == '|') {
                    if (p + 1 >= s.size()) { err = "dangling escape"; return false; }
                    char e = s[p + 1];
                    if (e == '0' && p + 7 < s.size() && s[p + 2] == 'x' && isxdigit((unsigned char)s[p + 3]) && isxdigit((unsigned char)s[p + 4]) && isxdigit((unsigned char)s[p + 5]) && isxdigit((unsigned char)s[p + 6])) {
                        unsigned cp = (unsigned)strtoul(s.substr(p + 3, 4).c_str(), 0, 16);      // |0xHHHH: a code point of the basic plane, given back as UTF-8
                        if (cp < 0x80) val += (char)cp; else if (cp < 0x800) { val += (char)(0xC0 | (cp >> 6)); val += (char)(0x80 | (cp & 0x3F)); } else { val += (char)(0xE0 | (cp >> 12)); val += (char)(0x80 | ((cp >> 6) & 0x3F)); val += (char)(0x80 | (cp & 0x3F)); }
                        p += 7; continue;
                    }
                    if (e == '\'' || e == '|' || e == '[' || e == ']') val += e; else if (e == 'n') val += '\n'; else if (e == 'r') val += '\r'; else if (e == 'x') val += "\xc2\x85"; else if (e == 'l') val += "\xe2\x80\xa8"; else if (e == 'p') val += "\xe2\x80\xa9";
                    else { err = sfmt("invalid escape in %s.%s| escape |%c", m.name.c_str(), key.c_str(), e); return false; }
                    p += 2;
                } else if (c == '\'') { term = true; p++; break; }
                else if (c == '\n' || c == '\r' || c == '[' || c == ']') { err = sfmt("unescaped delimiter inside value of %s.%s| byte 0x%02x", m.name.c_str(), key.c_str(), (unsigned char)c); return false; }
                else { val += c; p++; }
            }
            if (!term) { err = "unterminated value in " + m.name + "." + key; return false; }
            m.attrs.push_back(std::make_pair(key, val));
        }
        if (!closed) { err = "message not closed: " + m.name; return false; }
        if (p >= s.size() || s[p] != '\n') { err = "message not followed by a line break: " + m.name; return false; }
        out.push_back(m);
        pos = p;
    }
    return true;
}

// ------------------------------------------------------------------ JUnit via expat
struct XNode { Str name; Vec<std::pair<Str, Str> > attrs; Str text; Vec<XNode*> kids; XNode* parent; };
struct XDoc { XNode* root; XNode* cur; Vec<XNode*> all; XDoc() : root(0), cur(0) {} ~XDoc() { for (size_t i = 0; i < all.size(); i++) { all[i]->~XNode(); ::free(all[i]); } } };
static void XMLCALL xStart(void* ud, const XML_Char* name, const XML_Char** atts) {
    XDoc* d = (XDoc*)ud; XNode* n = new (::malloc(sizeof(XNode))) XNode(); d->all.push_back(n);
    n->name = name; n->parent = d->cur;
    for (int i = 0; atts[i]; i += 2) n->attrs.push_back(std::make_pair(Str(atts[i]), Str(atts[i + 1])));
    if (d->cur) d->cur->kids.push_back(n); else d->root = n;
    d->cur = n;
}
static void XMLCALL xEnd(void* ud, const XML_Char*) { XDoc* d = (XDoc*)ud; if (d->cur) d->cur = d->cur->parent; }
static void XMLCALL xText(void* ud, const XML_Char* s, int len) { XDoc* d = (XDoc*)ud; if (d->cur) d->cur->text.append(s, (size_t)len); }
static const Str* xAttr(const XNode* n, const char* k) { for (size_t i = 0; i < n->attrs.size(); i++) if (n->attrs[i].first == k) return &n->attrs[i].second; return 0; }
static Str xmlNormalizeAttr(const Str& s) { return s; }

static Str junitFileName(const Str& package, const Str& group) {
    Str n = "cpputest_"; if (!package.empty()) { n += package; n += "_"; } n += group;
    for (size_t i = 0; i < n.size(); i++) if (strchr("/\\?%*:|\"<>", n[i])) n[i] = '_';
    return n + ".xml";
}

// ------------------------------------------------------------------ the oracles
struct Started { int test; size_t evBegin, evEnd; bool willRun; };

void checkOracles(const Desc& d, const Obs& o, RunResult& r) {
    Config c = configOf(d);
    Vec<int> testGroups, pluginGroups;
    for (size_t g = 0; g < d.groups.size(); g++) { if (d.groups[g].tag == "test") testGroups.push_back((int)g); else if (d.groups[g].tag == "plugin") pluginGroups.push_back((int)g); }
    // pointer state the run starts from: redirections made outside any test are not the run's to restore (one nibble per target, as probePointers())
    int64_t ptrBaseline = 0;
    for (size_t g = 0; g < d.groups.size(); g++) if (d.groups[g].tag == "presets")
        for (size_t i = 0; i < d.groups[g].ops.size() && i < 8; i++) { const Op& po = d.groups[g].ops[i]; if (po.kind != K_PTR_SET) continue; int t = (int)(po.a % N_TARGETS); ptrBaseline = (ptrBaseline & ~((int64_t)15 << (4 * t))) | ((int64_t)(1 + po.b % N_VALUES) << (4 * t)); }
    size_t N = testGroups.size();
    Vec<MFilter> gf, nf; collectFilters(d, gf, nf);
    Vec<char> selected(N, 0), runs(N, 0);
    size_t nSel = 0;
    for (size_t t = 0; t < N; t++) {
        const Group& T = d.groups[(size_t)testGroups[t]];
        selected[t] = selectedBy(gf, T.sarg(0)) && selectedBy(nf, T.sarg(1));
        if (selected[t]) nSel++;
    }
    int reps = c.repeat > 0 ? c.repeat : 1;
    // run-ignored may be switched on between two repetitions (registry API only): counts per repetition
    int lateRi = (int)d.pi("late_ri", 0);
    Vec<size_t> nRunAt((size_t)reps + 1, 0), nIgnAt((size_t)reps + 1, 0);
    for (int rp = 0; rp <= reps; rp++) { bool ri = c.runIgnored && rp >= lateRi; for (size_t t = 0; t < N; t++) if (selected[t]) { if (d.groups[(size_t)testGroups[t]].arg(0) && !ri) nIgnAt[(size_t)rp]++; else nRunAt[(size_t)rp]++; } }
    size_t nRun = nRunAt[0], nIgn = nIgnAt[0];
    bool consoleish = c.output != 3 || c.verbose > 0;     // a console stream exists (TeamCity extends the console output)
    bool pureConsole = c.output != 3 && c.output != 4;

    // ---- split the event log into repetitions
    struct Rep { size_t begin, end; };
    Vec<Rep> repsSeen;
    for (size_t i = 0; i < o.ev.size(); i++) {
        if (o.ev[i].type == E_TESTS_START) { Rep rp = { i, o.ev.size() }; repsSeen.push_back(rp); }
        if (o.ev[i].type == E_TESTS_END && !repsSeen.empty()) repsSeen.back().end = i;
    }
    if ((int)repsSeen.size() != reps) r.fail("C01", "repetitions", sfmt("expected %d repetitions, observed %zu", reps, repsSeen.size()));
    if ((int)repsSeen.size() < reps && nSel > 0) r.fail("C02", "exactly_once", sigOf("what", "a repetition did not run at all"), sfmt("%zu tests are selected; %d repetitions asked for, %zu took place", nSel, reps, repsSeen.size()));
    if (o.sums.size() != repsSeen.size()) r.fail("C01", "repetitions", "summary records do not match repetitions");

    ModelState ms; ms.pluginCalls.assign(pluginGroups.size(), 0); ms.reallocFaultUnused = &o.reallocFaultUnused;
    size_t totalExpectedFailures = 0; bool anyRepFailed = false;
    Map<Str, size_t> tokenExpected;        // token -> how often a failure with it must have been printed
    Map<Str, size_t> childTokens;          // the same for failures recorded inside forked children
    bool childrenMayOverlap = false;
    Set<Str> childDontCare;                // ... except those of tests whose child the parent may not have waited for
    Vec<std::pair<Str, Str> > expectedBlocks;  // (header, token) per expected failure, for the console
    Map<Str, size_t> blockSlack;               // per header: failures of unfixed location that may carry it as well
    size_t failCursor = 0;

    for (size_t rp = 0; rp < repsSeen.size(); rp++) {
        size_t b = repsSeen[rp].begin, e = repsSeen[rp].end;
        {   bool ri = c.runIgnored && (int)rp >= lateRi; size_t k = rp < nRunAt.size() ? rp : nRunAt.size() - 1; nRun = nRunAt[k]; nIgn = nIgnAt[k];
            for (size_t t = 0; t < N; t++) runs[t] = selected[t] && !(d.groups[(size_t)testGroups[t]].arg(0) && !ri); }
        // -------- structure: groups and tests (C02)
        Vec<Started> started; Vec<int> startCount(N, 0);
        int groupOpen = 0; int groupTest = -1; bool structureOk = true; size_t groupStarts = 0, groupEnds = 0;
        for (size_t i = b + 1; i < e; i++) {
            const Ev& ev = o.ev[i];
            if (ev.type == E_GROUP_START) { groupStarts++; if (groupOpen) { structureOk = false; r.fail("C02", "group_balance", sigOf("what", "group started twice"), sfmt("rep %zu event %zu", rp, i)); } groupOpen = 1; groupTest = ev.test; }
            else if (ev.type == E_GROUP_END) { groupEnds++; if (!groupOpen) { structureOk = false; r.fail("C02", "group_balance", sigOf("what", "group ended without start"), sfmt("rep %zu event %zu", rp, i)); } groupOpen = 0; }
            else if (ev.type == E_TEST_START) {
                if (!groupOpen) { structureOk = false; r.fail("C02", "group_balance", sigOf("what", "test outside a group start/end pair"), sfmt("rep %zu test %d", rp, ev.test)); }
                else if (groupTest >= 0 && ev.test >= 0 && strcmp(d.groups[(size_t)testGroups[(size_t)groupTest]].sarg(0), d.groups[(size_t)testGroups[(size_t)ev.test]].sarg(0)) != 0)
                    r.fail("C02", "group_balance", sigOf("what", "test inside a group notification of another group"), sfmt("rep %zu test %d in group started by %d", rp, ev.test, groupTest));
                Started s; s.test = ev.test; s.evBegin = i; s.evEnd = e; s.willRun = ev.x != 0;
                started.push_back(s);
                if (ev.test >= 0 && (size_t)ev.test < N) startCount[(size_t)ev.test]++;
            }
            else if (ev.type == E_TEST_END) { if (!started.empty() && started.back().evEnd == e) started.back().evEnd = i; }
        }
        if (groupOpen) r.fail("C02", "group_balance", sigOf("what", "group left open at end of run"), sfmt("rep %zu: %zu starts, %zu ends", rp, groupStarts, groupEnds));
        (void)structureOk;
        for (size_t t = 0; t < N; t++) {
            if (selected[t] && startCount[t] != 1) r.fail("C02", "exactly_once", sigOf("what", startCount[t] == 0 ? "selected test not run" : "test run more than once"), sfmt("rep %zu test %zu (%s.%s) started %d times", rp, t, d.groups[(size_t)testGroups[t]].sarg(0), d.groups[(size_t)testGroups[t]].sarg(1), startCount[t]));
            if (!selected[t]) probe("test_filtered_out");
        if (!selected[t] && startCount[t] != 0) r.fail("C02", "selection", sigOf("what", "unselected test run"), sfmt("rep %zu test %zu (%s.%s) not selected by the filters but started", rp, t, d.groups[(size_t)testGroups[t]].sarg(0), d.groups[(size_t)testGroups[t]].sarg(1)));
        }
        // order
        if (c.shuffle == 0 && started.size() == nSel) {
            bool okOrder = true;
            for (size_t i = 1; i < started.size(); i++) { if (c.reverse ? started[i].test > started[i - 1].test : started[i].test < started[i - 1].test) okOrder = false; }
            if (!okOrder && d.pi("prologue") != 3) r.fail("C02", "order", sigOf("what", c.reverse ? "reverse order" : "registration order"), sfmt("rep %zu", rp));      // (after an earlier invocation that shuffled, the registry's order is whatever that one left: the property fixes no order across invocations)
        }
        // counts (C02 counter identity; C01 true counts)
        if (rp < o.sums.size()) {
            const Summary& s = o.sums[rp];
            if (s.tests != N) r.fail("C02", "counts", sigOf("what", "tests"), sfmt("rep %zu: tests=%zu expected %zu", rp, s.tests, N));
            if (s.run + s.ignored + s.filtered != s.tests) r.fail("C02", "counts", sigOf("what", "identity"), sfmt("rep %zu: ran %zu + ignored %zu + filtered %zu != tests %zu", rp, s.run, s.ignored, s.filtered, s.tests));
            if (s.run != nRun) r.fail("C02", "counts", sigOf("what", "ran"), sfmt("rep %zu: ran=%zu expected %zu", rp, s.run, nRun));
            if (s.ignored != nIgn) r.fail("C02", "counts", sigOf("what", "ignored"), sfmt("rep %zu: ignored=%zu expected %zu", rp, s.ignored, nIgn));
            if (s.filtered != N - nSel) r.fail("C02", "counts", sigOf("what", "filtered"), sfmt("rep %zu: filtered=%zu expected %zu", rp, s.filtered, N - nSel));
        }

        // -------- per test: trace, failures, pointers, leaks (C01, C07, C17)
        size_t repChecks = 0, repFailures = 0;
        for (size_t k = 0; k < started.size(); k++) {
            const Started& st = started[k];
            if (st.test < 0 || (size_t)st.test >= N) { r.fail("C01", "trace", "test start for an unknown shell"); continue; }
            const Group& T = d.groups[(size_t)testGroups[(size_t)st.test]];
            const Ev& startEv = o.ev[st.evBegin];
            if (startEv.depth != o.depthAtStart) r.fail("C01", "jump_depth", sigOf("where", "test start"), sfmt("jump stack depth %ld at start of test %d, expected %ld", startEv.depth, st.test, o.depthAtStart));
            if (!startEv.ctxOk) r.fail("C01", "context", sigOf("where", "test start"), sfmt("current test not restored before test %d", st.test));
            bool shouldExecute = runs[(size_t)st.test] != 0;
            ExpTest x;
            if (shouldExecute && c.separate) { ModelState childState = ms; modelTest(d, testGroups, pluginGroups, st.test, childState, x); }   // whatever the child does to memory dies with it
            else if (shouldExecute) modelTest(d, testGroups, pluginGroups, st.test, ms, x); else { x.checks = 0; x.leakFailure = false; }
            // collect observed ops and failures of this segment
            Vec<ExpOp> seen; int64_t probeVal = 0; bool probed = false; Vec<size_t> segFails;
            for (size_t i = st.evBegin + 1; i < st.evEnd; i++) {
                const Ev& ev = o.ev[i];
                if (ev.type == E_OP) { ExpOp s = { ev.phase, ev.op, ev.plugin }; seen.push_back(s);
                    if (ev.plugin < 0 && ev.depth != o.depthAtStart + 2) r.fail("C01", "jump_depth", sigOf("where", "inside phase"), sfmt("depth %ld inside phase %d of test %d, expected %ld", ev.depth, ev.phase, st.test, o.depthAtStart + 2));
                    if (ev.test != st.test) r.fail("C01", "trace", sigOf("what", "op of another test"), sfmt("op of test %d recorded inside test %d", ev.test, st.test)); }
                else if (ev.type == E_PROBE) { probeVal = ev.x; probed = true; }
                else if (ev.type == E_FAILURE) segFails.push_back((size_t)ev.op);
            }
            if (x.leakFailure) probe("leak_failure_expected"); if (!x.leaks.empty() && !x.leakFailure) probe("leaks_but_no_leak_failure");
            if (!x.fails.empty()) { bool sb = false, td = false; for (size_t q = 0; q < x.fails.size(); q++) { (void)q; } (void)sb; (void)td; if (x.fails.size() >= 2) probe("two_failures_in_one_test"); }
            if (probed && probeVal != ptrBaseline) r.fail("C17", "pointers_restored", sigOf("where", "next test"), sfmt("pointer state %llx at start of test %d, %llx before the run", (unsigned long long)probeVal, st.test, (unsigned long long)ptrBaseline));
            if (c.separate && shouldExecute) {
                // ---- C11: what the parent must record for this test, from the child's modelled fate and the wait script
                Vec<Str> want; Vec<Str> eitherTail; bool windowGiveUp = false, terminalSeen = false;
                bool forkFail = false; int64_t eintr = 0, eintrRun = 0; 
                for (size_t i = 0; i < T.ops.size(); i++) if (T.ops[i].phase == PH_PROC && T.ops[i].kind == K_FORK_FAIL) forkFail = true;
                if (forkFail) want.push_back("Call to fork() failed");
                else {
                    bool synthetic = d.pi("synthetic") != 0;
                    // events in the order the parent meets them
                    Vec<Op> evs;
                    for (size_t i = 0; i < T.ops.size(); i++) if (T.ops[i].phase == PH_PROC && (T.ops[i].kind == K_W_EINTR || T.ops[i].kind == K_W_ERR || synthetic)) evs.push_back(T.ops[i]);
                    if (!synthetic) {
                        for (int k = 0; k < x.childStops; k++) { Op o; o.kind = K_W_STOP; o.a = 19; evs.push_back(o); }
                        Op o;
                        if (x.childEnd == 1) { o.kind = K_W_SIGNAL; o.a = x.childValue; }
                        else if (x.childEnd == 2) { o.kind = K_W_EXIT; o.a = x.childValue; }
                        else { o.kind = K_W_EXIT; o.a = x.fails.empty() ? 0 : 1; }
                        evs.push_back(o);
                    }
                    for (size_t i = 0; i < evs.size() && !terminalSeen; i++) {
                        const Op& o = evs[i];
                        if (o.kind != K_W_EINTR) eintrRun = 0;      // (the retry budget may be per test or per wait: only one uninterrupted run past the bound must end in giving up)
                        if (o.kind == K_W_EINTR) { eintr += o.a; eintrRun += o.a;
                            if (eintrRun >= 40) { want.push_back("Call to waitpid() failed with EINTR"); terminalSeen = true; probe("eintr_past_retry_bound"); }
                            else if (eintr > 30) { windowGiveUp = true; probe("eintr_inside_bound_window"); for (size_t k = i + 1; k < evs.size(); k++) { (void)k; } }
                            else probe("eintr_survived");
                            if (windowGiveUp && !terminalSeen) { /* either the wait gives up here (one failure, nothing after) or it goes on */ }
                        }
                        else if (o.kind == K_W_ERR) { want.push_back("Call to waitpid() failed"); terminalSeen = true; }
                        else if (o.kind == K_W_STOP) want.push_back("Stopped in separate process");
                        else if (o.kind == K_W_EXIT) { if ((o.a & 0xff) != 0) want.push_back("Failed in separate process"); terminalSeen = true; }
                        else if (o.kind == K_W_SIGNAL) { want.push_back(sfmt("killed by signal %d", (int)o.a)); terminalSeen = true; }
                    }
                    if (synthetic && !terminalSeen) probe("script_without_terminal");
                }
                Vec<Str> got; for (size_t i = 0; i < segFails.size(); i++) got.push_back(o.fails[segFails[i]].msg);
                // the property fixes how many failures the parent records (one per event), not their wording: the texts are only counted as a probe
                bool match = got.size() == want.size();
                { bool sameText = match; for (size_t i = 0; sameText && i < got.size(); i++) if (got[i].find(want[i]) == Str::npos) sameText = false; if (match && !sameText) probe("parent_failure_worded_differently"); }
                if (!match && windowGiveUp) {        // inside the 31..39 window the parent may also have given up: then the failures up to that point plus one for giving up
                    if (!got.empty() && got.size() <= want.size() + 1) match = true;
                }
                if (!match) {
                    Str g, w; for (size_t i = 0; i < got.size(); i++) g += "[" + got[i] + "] "; for (size_t i = 0; i < want.size(); i++) w += "[" + want[i] + "] ";
                    const char* what = got.size() < want.size() ? "event not recorded in the parent" : "extra failure in the parent";
                    r.fail("C11", "parent_failures", sigOf("what", what), sfmt("rep %zu test %d (%s): parent recorded %zu failures %s, model expects %zu %s", rp, st.test, formattedName(T).c_str(), got.size(), g.c_str(), want.size(), w.c_str()));
                }
                for (size_t i = 0; i < segFails.size(); i++) { const FailRec& fr = o.fails[segFails[i]]; if (fr.file != T.sarg(2) || fr.line != (size_t)T.arg(1) || fr.testName != formattedName(T)) r.fail("C11", "failure_owner", sfmt("failure '%s' attributed to %s at %s:%zu", fr.msg.c_str(), fr.testName.c_str(), fr.file.c_str(), fr.line)); }
                // what the child printed before it ended must have reached the console: every failure it recorded, exactly once
                // Only the test's own failing statements are counted (their text is unique per statement and run once per execution), and only for
                // children the parent waited for to the end: a parent that gave up waiting may finish before the child has printed.
                if (!d.pi("synthetic") && c.output != 3)
                    for (size_t i = 0; i < x.fails.size(); i++) if (x.fails[i].kind == 0 && x.fails[i].token.compare(0, 2, "tk") == 0) {
                        if (eintr == 0 && !forkFail) childTokens[x.fails[i].token]++; else childDontCare.insert(x.fails[i].token);
                    }
                if (!d.pi("synthetic")) for (size_t i = 0; i < T.ops.size(); i++) if (T.ops[i].phase == PH_PROC && T.ops[i].kind == K_W_ERR) childrenMayOverlap = true;
                if (eintr > 30) childrenMayOverlap = true;      // the parent may have stopped waiting: that child goes on beside the next ones and their output interleaves byte by byte
                if (!seen.empty()) r.fail("C11", "ran_in_parent", sfmt("test %d executed %zu statements in the parent process", st.test, seen.size()));
                repFailures += segFails.size(); failCursor += segFails.size();
                continue;
            }
            // trace comparison
            bool same = seen.size() == x.ops.size();
            size_t firstDiff = 0;
            for (size_t i = 0; same && i < seen.size(); i++) if (seen[i].phase != x.ops[i].phase || seen[i].op != x.ops[i].op || seen[i].plugin != x.ops[i].plugin) { same = false; firstDiff = i; }
            if (!same) {
                // classify: statement after a failing check / body without setup / teardown missing / plugin order
                const char* what = "trace differs";
                bool pluginOnly = true; for (size_t i = 0; i < seen.size(); i++) if (seen[i].plugin < 0) { pluginOnly = false; }
                Vec<ExpOp> sT, xT, sP, xP;
                for (size_t i = 0; i < seen.size(); i++) (seen[i].plugin < 0 ? sT : sP).push_back(seen[i]);
                for (size_t i = 0; i < x.ops.size(); i++) (x.ops[i].plugin < 0 ? xT : xP).push_back(x.ops[i]);
                bool testPartSame = sT.size() == xT.size(); for (size_t i = 0; testPartSame && i < sT.size(); i++) if (sT[i].phase != xT[i].phase || sT[i].op != xT[i].op) testPartSame = false;
                (void)pluginOnly;
                if (testPartSame && x.chainChanged) { probe("plugin_chain_changed_by_this_test"); }      // which actions the changing test itself still sees is not specified: only later tests are compared
                else if (testPartSame) { what = "plugin actions"; r.fail("C17", "plugin_order", sigOf("what", what), sfmt("rep %zu test %d: plugin action sequence differs from the model (%zu seen, %zu expected)", rp, st.test, sP.size(), xP.size())); }
                else {
                    if (sT.size() > xT.size()) what = "statement executed that the model forbids"; else what = "statement missing";
                    r.fail("C01", "trace", sigOf("what", what), sfmt("rep %zu test %d (%s): %zu ops seen, %zu expected, first difference at %zu", rp, st.test, formattedName(T).c_str(), seen.size(), x.ops.size(), firstDiff));
                }
            }
            // failure records
            size_t expN = x.fails.size();
            if (segFails.size() != expN) {
                bool leakRelated = x.leakFailure || (segFails.size() > expN && !segFails.empty() && o.fails[segFails.back()].msg.find("emory leak") != Str::npos);
                if (leakRelated) r.fail("C07", "leak_verdict", sigOf("what", x.leakFailure ? "leak failure missing" : "unexpected leak failure"), sfmt("rep %zu test %d: %zu failures recorded, model expects %zu (leaks held by this test: %zu)", rp, st.test, segFails.size(), expN, x.leaks.size()));
                else r.fail("C01", "failure_count", sigOf("what", segFails.size() < expN ? "failure lost" : "extra failure"), sfmt("rep %zu test %d (%s): %zu failures recorded, model expects %zu", rp, st.test, formattedName(T).c_str(), segFails.size(), expN));
            }
            for (size_t i = 0; i < segFails.size() && i < expN; i++) {
                const FailRec& fr = o.fails[segFails[i]]; const ExpFail& ef = x.fails[i];
                const char* prop = ef.kind == 4 ? "C07" : "C01";
                // only text the test itself supplied is demanded back; how the framework words its own failures is not the property's business
                if (ef.token.compare(0, 2, "tk") == 0 && fr.msg.find(ef.token) == Str::npos) r.fail(prop, "failure_text", sigOf("kind", sfmt("%d", ef.kind)), sfmt("test %d failure %zu: message does not carry '%s': %s", st.test, i, ef.token.c_str(), fr.msg.c_str()));
                if (ef.bits >= 0) {      // both operands of a bit comparison are shown: every bit of the operand's width, most significant first, x where the mask is 0
                    const BitsCase& bc = bitsCase(ef.bits);
                    Str we = Str("<") + renderBits(bc.expected, bc.mask, bc.bytes) + ">", wa = Str("<") + renderBits(bc.actual, bc.mask, bc.bytes) + ">";
                    if (fr.msg.find(we) == Str::npos || fr.msg.find(wa) == Str::npos) r.fail("C14", "operand_rendering", sfmt("test %d failure %zu: bit operands %s and %s are not both shown: %s", st.test, i, we.c_str(), wa.c_str(), fr.msg.c_str()));
                }
                if (ef.pair >= 0) {      // both operands are shown, bytes that are not printable as escapes that denote them
                    Str we = Str("<") + renderOperand(operandPair(ef.pair).expected) + ">", wa = Str("<") + renderOperand(operandPair(ef.pair).actual) + ">";
                    if (fr.msg.find(we) == Str::npos || fr.msg.find(wa) == Str::npos) r.fail("C14", "operand_rendering", sfmt("test %d failure %zu: operands %s and %s are not both shown: %s", st.test, i, we.c_str(), wa.c_str(), fr.msg.c_str()));
                }
                if (ef.diffAt >= 0 && fr.msg.find(sfmt("difference starts at position %d at:", ef.diffAt)) == Str::npos) r.fail("C14", "difference_position", sfmt("test %d failure %zu: the operands differ first at index %d: %s", st.test, i, ef.diffAt, fr.msg.c_str()));
                if (!ef.anyLocation && (fr.file != ef.file || fr.line != ef.line)) r.fail(prop, "failure_location", sigOf("kind", sfmt("%d", ef.kind)), sfmt("test %d failure %zu at %s:%zu, expected %s:%zu", st.test, i, fr.file.c_str(), fr.line, ef.file.c_str(), ef.line));
                if (fr.testName != ef.testName) r.fail(prop, "failure_owner", sfmt("failure attributed to %s, expected %s", fr.testName.c_str(), ef.testName.c_str()));
                if (ef.kind == 5) {      // what the detector says about a misuse is about that misuse: no block of any test is listed in it
                    Vec<LeakEntry> ents; long total = -1; parseLeakReport(fr.msg, ents, total);
                    if (!ents.empty() || total >= 0) r.fail("C07", "leak_report", sigOf("what", "a misuse failure lists leaked blocks"), sfmt("test %d: %s", st.test, fr.msg.substr(0, 300).c_str()));
                }
                if (ef.kind == 4) {
                    // the report must list exactly the blocks this test still holds
                    Vec<Str> want, got;
                    for (size_t l = 0; l < x.leaks.size(); l++) want.push_back(sfmt("%zu|%s|%zu|%s", x.leaks[l].size, x.leaks[l].file.c_str(), x.leaks[l].line, x.leaks[l].type.c_str()));
                    Vec<LeakEntry> ents; long total = -1; parseLeakReport(fr.msg, ents, total);      // by field labels, whatever the layout around them
                    for (size_t q = 0; q < ents.size(); q++) if (ents[q].complete) got.push_back(sfmt("%lu|%s|%ld|%s", ents[q].size, ents[q].file.c_str(), ents[q].line, ents[q].type.c_str()));
                    std::sort(want.begin(), want.end()); std::sort(got.begin(), got.end());
                    bool truncated = got.size() < x.leaks.size() && fr.msg.size() + 400 >= (size_t)SimpleStringBuffer::SIMPLE_STRING_BUFFER_LEN;      // fewer entries than blocks and the text fills the detector's buffer: the report ran out of room (what it says about that is judged in heapsim)
                    probe(truncated ? "leak_report_truncated" : "leak_report_complete");
                    if (!truncated && want != got) { Str w, g2; for (size_t q = 0; q < want.size(); q++) w += want[q] + ";"; for (size_t q = 0; q < got.size(); q++) g2 += got[q] + ";"; r.fail("C07", "leak_report", sigOf("what", "blocks listed"), sfmt("test %d: report lists {%s}, model holds {%s}", st.test, g2.c_str(), w.c_str())); }
                    if (!x.leaks.empty() && total != (long)x.leaks.size()) r.fail("C07", "leak_report", sigOf("what", "total"), sfmt("test %d: report total %ld, model %zu", st.test, total, x.leaks.size()));
                }
            }
            for (size_t i = 0; i < x.fails.size(); i++) {
                const ExpFail& ef = x.fails[i];
                tokenExpected[ef.token]++;
                if (!ef.anyLocation) {
                    Str h;
                    bool outside = ef.file != T.sarg(2) || ef.line < (size_t)T.arg(1);
                    if (outside) h = sfmt("\n%s:%zu: error: Failure in %s\n%s:%zu: error:\n\t", T.sarg(2), (size_t)T.arg(1), ef.testName.c_str(), ef.file.c_str(), ef.line);
                    else h = sfmt("\n%s:%zu: error: Failure in %s\n\t", ef.file.c_str(), ef.line, ef.testName.c_str());
                    expectedBlocks.push_back(std::make_pair(h, ef.token));
                } else blockSlack[sfmt("\n%s:%zu: error: Failure in %s\n\t", T.sarg(2), (size_t)T.arg(1), ef.testName.c_str())]++;      // a failure the framework reports where it sees fit may be reported at the test itself
            }
            repChecks += x.checks; repFailures += segFails.size();
            totalExpectedFailures += x.fails.size();
            failCursor += segFails.size();
            // ignored tests must not execute anything
            if (!shouldExecute && !seen.empty()) r.fail("C02", "ignored_executed", sfmt("ignored/unselected test %d executed %zu ops", st.test, seen.size()));
        }
        // failures outside any test segment
        // -------- summary of this repetition (C01)
        if (rp < o.sums.size()) {
            const Summary& s = o.sums[rp];
            size_t modelFailures = 0; (void)modelFailures;
            if (s.failures != repFailures) r.fail("C01", "summary_counts", sigOf("what", "failures"), sfmt("rep %zu: result counts %zu failures, %zu were printed", rp, s.failures, repFailures));
            if (s.checks != repChecks) r.fail("C01", "summary_counts", sigOf("what", "checks"), sfmt("rep %zu: checks=%zu, model %zu", rp, s.checks, repChecks));
            bool modelFail = s.failures != 0 || (nRun + nIgn == 0);
            if (s.isFailure != modelFail) r.fail("C01", "verdict", sigOf("what", "isFailure"), sfmt("rep %zu: isFailure=%d model %d", rp, (int)s.isFailure, (int)modelFail));
            if (modelFail) anyRepFailed = true;
        }
    }
    if (o.fails.size() != failCursor) r.fail("C01", "failure_count", sigOf("what", "failure outside any test"), sfmt("%zu failures recorded, %zu inside test segments", o.fails.size(), failCursor));

    if (!o.wrapperProblems.empty()) r.fail(o.wrapperProblems.find("plugins installed") != Str::npos ? "C17" : "C01", "static_entry_point", sigOf("what", o.wrapperProblems.find("plugins installed") != Str::npos ? "runner's own plugin left installed" : (o.wrapperProblems.find("returned") != Str::npos ? "return value" : "actions")), o.wrapperProblems);
    if (o.pluginCount != o.pluginCountExpected || o.removedStillFound) r.fail("C17", "plugin_removed", sigOf("what", o.pluginCount > o.pluginCountExpected ? "plugin not removed" : "wrong plugin removed"), sfmt("%d plugins installed after the removals, model %d; %d removed names still found", o.pluginCount, o.pluginCountExpected, o.removedStillFound));
    if (c.separate && !d.pi("synthetic") && !childrenMayOverlap) {
        for (Map<Str, size_t>::const_iterator it = childTokens.begin(); it != childTokens.end(); ++it) {
            if (childDontCare.count(it->first)) continue;
            size_t got = countOcc(o.childConsole, it->first);
            if (got != it->second) { r.fail("C01", "printed_once", sigOf("what", got < it->second ? "failure recorded in the child never reached the console" : "failure printed more than once by the child"), sfmt("token %s printed %zu times by forked children, expected %zu", it->first.c_str(), got, it->second)); break; }
        }
        probe("child_console_checked");
    }
    if (c.separate) {
        // hangs, SIGCONT per stop, fork per executed test
        size_t hangs = 0, forks = 0, conts = 0, stopsSeen = 0;
        for (size_t i = 0; i + 2 < o.procLog.size(); i += 3) { if (o.procLog[i + 1] == 4) hangs++; if (o.procLog[i + 1] == 1) forks++; if (o.procLog[i + 1] == 3 && o.procLog[i + 2] == 18) conts++; }
        for (size_t i = 0; i < o.fails.size(); i++) if (o.fails[i].msg.find("Stopped in separate process") != Str::npos) stopsSeen++;
        { size_t wrong = 0; for (size_t i = 0; i + 2 < o.procLog.size(); i += 3) if (o.procLog[i + 1] == 6) wrong++;
          if (wrong) r.fail("C11", "waits_for_its_own_child", sfmt("%zu waitpid calls named a process other than the child forked for the test (any child: -1)", wrong)); }
        if (hangs) r.fail("C11", "bounded_wait", sigOf("what", "waitpid called again after the child had terminated"), sfmt("%zu tests kept waiting after their terminal status", hangs));
        { size_t wantForks = 0; for (size_t q = 0; q < repsSeen.size(); q++) wantForks += nRunAt[q < nRunAt.size() ? q : nRunAt.size() - 1];
          if (forks != wantForks) r.fail("C11", "remaining_tests", sigOf("what", "fork count"), sfmt("%zu forks for %zu executed tests over %zu repetitions", forks, wantForks, repsSeen.size())); }
        if (conts != stopsSeen) r.fail("C11", "continue_after_stop", sfmt("%zu stop failures, %zu SIGCONT sent", stopsSeen, conts));
        bool anyFail = !o.fails.empty();
        if (anyFail && o.ret == 0) r.fail("C11", "overall_failure", sigOf("what", "run reported OK although a child event was recorded"), sfmt("return value %d with %zu failures", o.ret, o.fails.size()));
    }
    // ---- return value (C01)
    if ((o.ret == 0) != !anyRepFailed) r.fail("C01", "return_value", sigOf("what", o.ret == 0 ? "zero although a repetition failed" : "non-zero although every repetition was OK"), sfmt("runner returned %d; some repetition failed: %d", o.ret, (int)anyRepFailed));
    if (o.depthAtEnd != o.depthAtStart) r.fail("C01", "jump_depth", sigOf("where", "end of run"), sfmt("jump stack depth %ld at end of run, %ld at start", o.depthAtEnd, o.depthAtStart));
    if (o.maxDepth - o.depthAtStart > 9) r.fail("C01", "jump_depth", sigOf("where", "max"), sfmt("jump stack reached depth %ld", o.maxDepth));
    if (!o.ctxOkAtEnd) r.fail("C01", "context", sigOf("where", "end of run"), "current test not restored at end of run");
    if (o.finalProbe != ptrBaseline) r.fail("C17", "pointers_restored", sigOf("where", "end of run"), sfmt("pointer state %llx after the last test, %llx before the run", (unsigned long long)o.finalProbe, (unsigned long long)ptrBaseline));
    if (o.maxDepth - o.depthAtStart >= 2 && totalExpectedFailures > 10) probe("more_than_10_failures_in_run");

    // ---- console stream (C01: printed exactly once with file and line; summary text)
    if (consoleish && c.output != 4) {
        for (Map<Str, size_t>::const_iterator it = tokenExpected.begin(); it != tokenExpected.end(); ++it) {
            if (it->first.compare(0, 2, "tk") != 0) continue;       // only unique tokens can be counted
            size_t got = countOcc(o.console, it->first);
            if (c.output == 3) continue;                             // composite junit+console prints through both; not compared
            if (got != it->second) r.fail("C01", "printed_once", sigOf("what", got < it->second ? "failure not printed" : "failure printed more than once"), sfmt("token %s printed %zu times, expected %zu", it->first.c_str(), got, it->second));
        }
        if (c.output != 3) {
            Map<Str, size_t> blockWant;
            for (size_t i = 0; i < expectedBlocks.size(); i++) blockWant[expectedBlocks[i].first]++;
            for (Map<Str, size_t>::const_iterator it = blockWant.begin(); it != blockWant.end(); ++it) {
                size_t got = countOcc(o.console, it->first);
                size_t slack = blockSlack.count(it->first) ? blockSlack[it->first] : 0;
                if (got < it->second || got > it->second + slack) r.fail("C01", "printed_location", sigOf("what", "location block"), sfmt("location block %s printed %zu times, expected %zu", Json::S(it->first).dump().c_str(), got, it->second));
            }
        }
        Vec<ParsedSummary> ps; parseSummaries(o.console, ps);
        if (ps.size() != o.sums.size()) r.fail("C01", "summary_text", sigOf("what", "count"), sfmt("%zu summary lines parsed, %zu repetitions", ps.size(), o.sums.size()));
        for (size_t i = 0; i < ps.size() && i < o.sums.size(); i++) {
            const Summary& s = o.sums[i]; const ParsedSummary& p = ps[i];
            nRun = nRunAt[i < nRunAt.size() ? i : nRunAt.size() - 1]; nIgn = nIgnAt[i < nIgnAt.size() ? i : nIgnAt.size() - 1];
            bool modelOk = !(s.failures != 0 || (nRun + nIgn == 0));
            if (p.okWord != modelOk) r.fail("C01", "summary_text", sigOf("what", "OK/Errors"), sfmt("rep %zu prints %s but model says %s", i, p.okWord ? "OK" : "Errors", modelOk ? "OK" : "Errors"));
            if ((size_t)p.tests != N || (size_t)p.run != nRun || (size_t)p.ignored != nIgn || (size_t)p.filtered != N - nSel || (size_t)p.checks != s.checks) r.fail("C01", "summary_text", sigOf("what", "counts"), sfmt("rep %zu summary %ld/%ld/%ld/%ld/%ld, model %zu/%zu/%zu/%zu/%zu", i, p.tests, p.run, p.checks, p.ignored, p.filtered, N, nRun, s.checks, nIgn, N - nSel));
            if (!p.okWord && !p.ranNothing && (size_t)p.failures != s.failures) r.fail("C01", "summary_text", sigOf("what", "failures"), sfmt("rep %zu prints %ld failures, counted %zu", i, p.failures, s.failures));
            if (!p.okWord && p.ranNothing && s.failures != 0) r.fail("C01", "summary_text", sigOf("what", "ran nothing"), "prints 'ran nothing' although failures exist");
        }
    }
    (void)pureConsole;

    // ---- TeamCity (C20)
    if (c.output == 4) {
        Vec<TcMsg> msgs; Str err; const Vec<TcMsg>* msgs0p = &msgs;
        if (!decodeTeamCity(o.console, msgs, err)) r.fail("C20", "decode", sigOf("what", err.substr(0, err.find('|'))), err);
        else {
            // expected message list from the event log and failure records
            Vec<TcMsg> want;
            Str curGroup;
            for (size_t i = 0; i < o.ev.size(); i++) {
                const Ev& ev = o.ev[i];
                if (ev.type == E_GROUP_START && ev.test >= 0) { TcMsg m; m.name = "testSuiteStarted"; curGroup = d.groups[(size_t)testGroups[(size_t)ev.test]].sarg(0); m.attrs.push_back(std::make_pair(Str("name"), curGroup)); want.push_back(m); }
                else if (ev.type == E_GROUP_END) { TcMsg m; m.name = "testSuiteFinished"; m.attrs.push_back(std::make_pair(Str("name"), curGroup)); want.push_back(m); }
                else if (ev.type == E_TEST_START && ev.test >= 0) {
                    const Group& T = d.groups[(size_t)testGroups[(size_t)ev.test]];
                    TcMsg m; m.name = "testStarted"; m.attrs.push_back(std::make_pair(Str("name"), Str(T.sarg(1)))); want.push_back(m);
                    if (T.arg(0) && !c.runIgnored) { TcMsg g; g.name = "testIgnored"; g.attrs.push_back(std::make_pair(Str("name"), Str(T.sarg(1)))); want.push_back(g); }
                }
                else if (ev.type == E_TEST_END && ev.test >= 0) { TcMsg m; m.name = "testFinished"; m.attrs.push_back(std::make_pair(Str("name"), Str(d.groups[(size_t)testGroups[(size_t)ev.test]].sarg(1)))); m.attrs.push_back(std::make_pair(Str("duration"), Str("*"))); want.push_back(m); }
                else if (ev.type == E_FAILURE) {
                    const FailRec& fr = o.fails[(size_t)ev.op];
                    TcMsg m; m.name = "testFailed";
                    Str nameOnly = ev.test >= 0 ? Str(d.groups[(size_t)testGroups[(size_t)ev.test]].sarg(1)) : Str("?");
                    m.attrs.push_back(std::make_pair(Str("name"), nameOnly));
                    Str message;
                    if (fr.testFile != fr.file || fr.line < fr.testLine) message = sfmt("TEST failed (%s:%zu): ", fr.testFile.c_str(), fr.testLine);
                    message += sfmt("%s:%zu", fr.file.c_str(), fr.line);
                    m.attrs.push_back(std::make_pair(Str("message"), message));
                    m.attrs.push_back(std::make_pair(Str("details"), fr.msg));
                    want.push_back(m);
                }
            }
            // The property speaks of suite and test starts and finishes, ignored flags and failures: other service messages (and further attributes of
            // these six) are the output's own business as long as they decode. The message attribute of a failure is worded by the output; what must come
            // back from it is the location (file:line of the failure, and the test's file when the failure lies elsewhere).
            Vec<TcMsg> all; all.swap(msgs);
            for (size_t i = 0; i < all.size(); i++) { const Str& n = all[i].name; if (n == "testSuiteStarted" || n == "testSuiteFinished" || n == "testStarted" || n == "testFinished" || n == "testFailed" || n == "testIgnored") msgs.push_back(all[i]); }
            if (want.size() != msgs.size()) r.fail("C20", "stream", sigOf("what", "message count"), sfmt("%zu service messages decoded, %zu expected", msgs.size(), want.size()));
            for (size_t i = 0; i < want.size() && i < msgs.size(); i++) {
                if (want[i].name != msgs[i].name) { r.fail("C20", "stream", sigOf("what", "message order"), sfmt("message %zu is %s, expected %s", i, msgs[i].name.c_str(), want[i].name.c_str())); break; }
                bool stop = false;
                for (size_t a = 0; a < want[i].attrs.size(); a++) {
                    const Str* got = 0; for (size_t g = 0; g < msgs[i].attrs.size(); g++) if (msgs[i].attrs[g].first == want[i].attrs[a].first) { got = &msgs[i].attrs[g].second; break; }
                    if (!got) { r.fail("C20", "stream", sigOf("what", "attribute name"), sfmt("message %zu (%s) has no attribute %s", i, want[i].name.c_str(), want[i].attrs[a].first.c_str())); stop = true; break; }
                    if (want[i].attrs[a].second == "*" && want[i].attrs[a].first == "duration") continue;
                    if (want[i].attrs[a].first == "message") {
                        const FailRec* frp = 0; size_t nth = 0, k = 0; for (size_t w = 0; w <= i; w++) if (want[w].name == "testFailed") nth++;
                        for (size_t e = 0; e < o.ev.size(); e++) if (o.ev[e].type == E_FAILURE) { if (++k == nth) { frp = &o.fails[(size_t)o.ev[e].op]; break; } }
                        bool okm = frp && got->find(sfmt("%s:%zu", frp->file.c_str(), frp->line)) != Str::npos && (frp->testFile == frp->file || got->find(frp->testFile) != Str::npos);
                        if (okm) continue;
                    }
                    if (want[i].attrs[a].second != *got) {
                        Json sg = Json::O(); sg.set("msg", Json::S(want[i].name)); sg.set("attr", Json::S(want[i].attrs[a].first));
                        r.fail("C20", "value", sg, sfmt("message %zu %s.%s decodes to %s, original %s", i, want[i].name.c_str(), want[i].attrs[a].first.c_str(), Json::S(*got).dump().c_str(), Json::S(want[i].attrs[a].second).dump().c_str()));
                        stop = true; break;
                    }
                }
                if (stop) break;
            }
            // pairing and nesting straight from the decoded stream (independent of the event log): of the parent's own output, and - with real children - of
            // the bytes in the order a terminal receives them (a child that starts with unflushed output of the parent repeats it)
            Vec<TcMsg> term; Str terr; bool haveTerm = c.separate && !d.pi("synthetic") && !childrenMayOverlap;
            if (haveTerm && !decodeTeamCity(o.terminal, term, terr)) { r.fail("C20", "decode", sigOf("what", Str("terminal: ") + terr.substr(0, terr.find('|'))), terr); haveTerm = false; }
            for (int pass = 0; pass < (haveTerm ? 2 : 1); pass++) {
            const Vec<TcMsg>& msgs = pass ? term : *msgs0p;
            int suiteOpen = 0, testOpen = 0; Str openTest, openSuite;
            for (size_t i = 0; i < msgs.size(); i++) {
                const TcMsg& m = msgs[i]; Str nm = m.attrs.empty() ? Str() : m.attrs[0].second;
                if (m.name == "testSuiteStarted") { if (suiteOpen || testOpen) r.fail("C20", "nesting", sigOf("what", "suite started inside suite/test"), nm); suiteOpen = 1; openSuite = nm; }
                else if (m.name == "testSuiteFinished") { if (!suiteOpen || testOpen || nm != openSuite) r.fail("C20", "nesting", sigOf("what", "suite finish without matching start"), nm); suiteOpen = 0; }
                else if (m.name == "testStarted") { if (!suiteOpen || testOpen) r.fail("C20", "nesting", sigOf("what", "test started outside suite or inside test"), nm); testOpen = 1; openTest = nm; }
                else if (m.name == "testFinished") { if (!testOpen || nm != openTest) r.fail("C20", "nesting", sigOf("what", "test finish without matching start"), nm); testOpen = 0; }
                else if (m.name == "testFailed" || m.name == "testIgnored") { if (!testOpen || nm != openTest) r.fail("C20", "nesting", sigOf("what", "failure/ignored outside its test"), m.name + " " + nm); }
            }
            if (suiteOpen || testOpen) r.fail("C20", "nesting", sigOf("what", "left open at end"), "");
            }
        }
    }

    // ---- JUnit (C16)
    if (c.output == 3) {
        if (o.writesAfterClose || o.badHandle) r.fail("C16", "file_protocol", sfmt("writes after close %llu, bad handles %llu", (unsigned long long)o.writesAfterClose, (unsigned long long)o.badHandle));
        // expected files: per repetition, per consecutive group block of started tests
        size_t fileIdx = 0;
        for (size_t rp = 0; rp < repsSeen.size(); rp++) {
            size_t i = repsSeen[rp].begin;
            while (i < repsSeen[rp].end) {
                if (o.ev[i].type != E_GROUP_START) { i++; continue; }
                size_t j = i + 1; Vec<size_t> tests;     // event indexes of TEST_START inside this group
                while (j < repsSeen[rp].end && o.ev[j].type != E_GROUP_END) { if (o.ev[j].type == E_TEST_START) tests.push_back(j); j++; }
                size_t groupEndEv = j;
                if (tests.empty()) { fileIdx++; i = j + 1; continue; }    // a group whose tests were all filtered out still writes a (nameless) file
                int t0 = o.ev[tests[0]].test; Str group = d.groups[(size_t)testGroups[(size_t)t0]].sarg(0);
                if (fileIdx >= o.files.size()) { r.fail("C16", "file_missing", sfmt("no file written for group %s", group.c_str())); break; }
                const SimFile& f = o.files[fileIdx++];
                if (f.open || f.opens != 1 || f.closes != 1) r.fail("C16", "file_protocol", sfmt("file %s opened %d closed %d", f.name.c_str(), f.opens, f.closes));
                Str wantName = junitFileName(c.package, group);
                if (f.name != wantName) r.fail("C16", "file_name", sfmt("file name %s expected %s", Json::S(f.name).dump().c_str(), Json::S(wantName).dump().c_str()));
                XDoc doc; XML_Parser p = XML_ParserCreate(NULL);
                XML_SetUserData(p, &doc); XML_SetElementHandler(p, xStart, xEnd); XML_SetCharacterDataHandler(p, xText);
                bool okx = XML_Parse(p, f.data.data(), (int)f.data.size(), 1) != XML_STATUS_ERROR;
                if (!okx) {
                    // classify where the parser stopped: inside which element/attribute
                    long ln = (long)XML_GetCurrentLineNumber(p); Str msg = XML_ErrorString(XML_GetErrorCode(p));
                    size_t off = (size_t)XML_GetCurrentByteIndex(p); size_t ls = f.data.rfind('\n', off ? off - 1 : 0); ls = ls == Str::npos ? 0 : ls + 1;
                    Str lineText = f.data.substr(ls, 60);
                    Str where = "other";
                    if (lineText.compare(0, 10, "<testsuite") == 0) where = "testsuite attributes"; else if (lineText.compare(0, 9, "<testcase") == 0) where = "testcase attributes";
                    else if (lineText.compare(0, 8, "<failure") == 0) where = "failure message"; else if (lineText.compare(0, 12, "<system-out>") == 0) where = "system-out";
                    XML_ParserFree(p);
                    r.fail("C16", "well_formed", sigOf("where", where), sfmt("%s: %s at line %ld: %s", f.name.c_str(), msg.c_str(), ln, Json::S(lineText).dump().c_str()));
                    i = groupEndEv + 1; continue;
                }
                XML_ParserFree(p);
                const XNode* root = doc.root;
                if (!root || root->name != "testsuite") { r.fail("C16", "structure", "root element is not testsuite"); i = groupEndEv + 1; continue; }
                const Str* an = xAttr(root, "name"); const Str* at = xAttr(root, "tests"); const Str* af = xAttr(root, "failures");
                if (!an || xmlNormalizeAttr(*an) != group) r.fail("C16", "value", sigOf("where", "testsuite@name"), sfmt("suite name %s, group %s", an ? Json::S(*an).dump().c_str() : "-", Json::S(group).dump().c_str()));
                // model counts for this group
                size_t wantFailed = 0;
                Vec<const XNode*> cases; const XNode* sysout = 0;
                for (size_t k = 0; k < root->kids.size(); k++) { if (root->kids[k]->name == "testcase") cases.push_back(root->kids[k]); else if (root->kids[k]->name == "system-out") sysout = root->kids[k]; }
                if (!at || (size_t)atol(at->c_str()) != tests.size()) r.fail("C16", "counts", sigOf("what", "tests"), sfmt("group %s: tests=%s, %zu ran", group.c_str(), at ? at->c_str() : "-", tests.size()));
                if (cases.size() != tests.size()) r.fail("C16", "structure", sigOf("what", "testcase count"), sfmt("group %s: %zu testcase elements, %zu tests", group.c_str(), cases.size(), tests.size()));
                for (size_t k = 0; k < tests.size(); k++) {
                    size_t evStart = tests[k]; int t = o.ev[evStart].test; const Group& T = d.groups[(size_t)testGroups[(size_t)t]];
                    // failures of this test: E_FAILURE events until its TEST_END
                    const FailRec* firstFail = 0;
                    for (size_t q = evStart + 1; q < groupEndEv && o.ev[q].type != E_TEST_START; q++) if (o.ev[q].type == E_FAILURE && !firstFail) firstFail = &o.fails[(size_t)o.ev[q].op];
                    if (firstFail) wantFailed++;
                    if (k >= cases.size()) continue;
                    const XNode* cs = cases[k];
                    const Str* cn = xAttr(cs, "name"); const Str* cf = xAttr(cs, "file"); const Str* cl = xAttr(cs, "line"); const Str* cc = xAttr(cs, "classname");
                    if (!cn || *cn != T.sarg(1)) r.fail("C16", "value", sigOf("where", "testcase@name"), sfmt("case %zu name %s, test %s", k, cn ? Json::S(*cn).dump().c_str() : "-", Json::S(Str(T.sarg(1))).dump().c_str()));
                    if (!cf || *cf != T.sarg(2)) r.fail("C16", "value", sigOf("where", "testcase@file"), sfmt("case %zu file %s, test file %s", k, cf ? Json::S(*cf).dump().c_str() : "-", Json::S(Str(T.sarg(2))).dump().c_str()));
                    if (!cl || atol(cl->c_str()) != (long)T.arg(1)) r.fail("C16", "value", sigOf("where", "testcase@line"), sfmt("case %zu line %s expected %lld", k, cl ? cl->c_str() : "-", (long long)T.arg(1)));
                    Str wantClass = c.package.empty() ? group : c.package + "." + group;
                    if (!cc || *cc != wantClass) r.fail("C16", "value", sigOf("where", "testcase@classname"), sfmt("case %zu classname %s expected %s", k, cc ? Json::S(*cc).dump().c_str() : "-", Json::S(wantClass).dump().c_str()));
                    const XNode* fl = 0; const XNode* sk = 0;
                    for (size_t q = 0; q < cs->kids.size(); q++) { if (cs->kids[q]->name == "failure") fl = cs->kids[q]; else if (cs->kids[q]->name == "skipped") sk = cs->kids[q]; }
                    bool ignoredNotRun = T.arg(0) && !c.runIgnored;      // from the description, not from what the shell said at its start notification
                    if ((sk != 0) != (ignoredNotRun && !firstFail)) r.fail("C16", "markers", sigOf("what", "skipped"), sfmt("case %zu: skipped marker %d, ignored %d", k, sk != 0, (int)ignoredNotRun));
                    if ((fl != 0) != (firstFail != 0)) r.fail("C16", "markers", sigOf("what", "failure"), sfmt("case %zu (%s): failure element %d, test failed %d", k, T.sarg(1), fl != 0, firstFail != 0));
                    if (fl && firstFail) {
                        const Str* fm = xAttr(fl, "message");
                        Str wantMsg = sfmt("%s:%zu: ", firstFail->file.c_str(), firstFail->line) + firstFail->msg;
                        // attribute value normalisation turns literal tab/newline into spaces; the writer encodes CR/LF as character references, tabs stay literal
                        Str wantNorm = wantMsg; for (size_t q = 0; q < wantNorm.size(); q++) if (wantNorm[q] == '\t') wantNorm[q] = ' ';
                        Str gotNorm = fm ? *fm : Str(); for (size_t q = 0; q < gotNorm.size(); q++) if (gotNorm[q] == '\t') gotNorm[q] = ' ';      // (a writer that encodes the tab as a character reference gives the tab itself back: at least as faithful)
                        if (!fm || gotNorm != wantNorm) r.fail("C16", "value", sigOf("where", "failure@message"), sfmt("case %zu: message %s, original %s", k, fm ? Json::S(*fm).dump().c_str() : "-", Json::S(wantNorm).dump().c_str()));
                    }
                }
                if (!af || (size_t)atol(af->c_str()) != wantFailed) r.fail("C16", "counts", sigOf("what", "failures"), sfmt("group %s: failures=%s, %zu tests failed", group.c_str(), af ? af->c_str() : "-", wantFailed));
                // system-out must contain (unescaped) every text this group printed
                if (!sysout) r.fail("C16", "structure", sigOf("what", "system-out"), "no system-out element");
                else for (size_t k = 0; k < tests.size(); k++) {
                    int t = o.ev[tests[k]].test; const Group& T = d.groups[(size_t)testGroups[(size_t)t]];
                    for (size_t q = tests[k] + 1; q < groupEndEv && o.ev[q].type != E_TEST_START; q++) {
                        if (o.ev[q].type != E_OP || o.ev[q].plugin >= 0) continue;
                        const Op& op = T.ops[(size_t)o.ev[q].op];
                        if (op.kind != K_PRINT) continue;
                        // expat reports \r\n and \r in character data as \n (XML line end normalisation) only when literal; the writer encodes them as references, so text survives verbatim
                        if (sysout->text.find(op.s2) == Str::npos) r.fail("C16", "value", sigOf("where", "system-out"), sfmt("printed text %s not found in unescaped system-out", Json::S(op.s2).dump().c_str()));
                    }
                }
                // ... and it is made of whole printed texts: a contiguous run of the texts handed to the output, none of them cut (whether a report carries
                // the output of its own group only or of everything printed so far is the writer's choice)
                if (sysout && !sysout->text.empty() && !c.separate) {
                    bool crTail = false; for (size_t q = 0; q < o.printedChunks.size(); q++) if (!o.printedChunks[q].empty() && o.printedChunks[q][o.printedChunks[q].size() - 1] == '\r') crTail = true;
                    if (!crTail) {
                        Str stream; Vec<size_t> bounds; for (size_t q = 0; q < o.printedChunks.size(); q++) { bounds.push_back(stream.size()); stream += o.printedChunks[q]; } bounds.push_back(stream.size());
                        bool whole = false; size_t at = 0;
                        while (!whole && (at = stream.find(sysout->text, at)) != Str::npos) {
                            if (std::find(bounds.begin(), bounds.end(), at) != bounds.end() && std::find(bounds.begin(), bounds.end(), at + sysout->text.size()) != bounds.end()) whole = true;
                            at++;
                        }
                        if (!whole) r.fail("C16", "value", sigOf("where", "system-out is not a run of whole printed texts"), sfmt("group %s: system-out %s", group.c_str(), Json::S(sysout->text.substr(0, 200)).dump().c_str()));
                        else probe("system_out_made_of_whole_texts");
                    }
                }
                i = groupEndEv + 1;
            }
        }
    }
}

}  // namespace rs
