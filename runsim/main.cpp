// runsim engine: whole command-line runs of generated test programs under simulated clock, streams, files, rand.
#include "runsim.h"
#include <algorithm>

namespace rs {
class RunSim : public vf::Engine {
public:
    const char* name() const { return "runsim"; }
#if CPPUTEST_HAVE_EXCEPTIONS && !defined(__SANITIZE_ADDRESS__)
    const char* variant() const { return "plain"; }
#elif CPPUTEST_HAVE_EXCEPTIONS
    const char* variant() const { return "asan"; }
#else
    const char* variant() const { return "noexc"; }
#endif
    vf::KindNameFn kindName() const { return rs::kindName; }
    vf::KindFromNameFn kindFromName() const { return rs::kindFromName; }
    void generate(uint64_t seed, const Str& profile, Desc& d) { rs::generate(seed, profile, d, CPPUTEST_HAVE_EXCEPTIONS != 0); }
    void execute(const Desc& d, RunResult& r) {
        Obs o;
        executeRun(d, o);
        // event-log hash: address free
        Hash h;
        for (size_t i = 0; i < o.ev.size(); i++) { h.u64((uint64_t)o.ev[i].type); h.u64((uint64_t)(int64_t)o.ev[i].test); h.u64((uint64_t)o.ev[i].phase); h.u64((uint64_t)o.ev[i].op); h.u64((uint64_t)(int64_t)o.ev[i].plugin); h.u64((uint64_t)o.ev[i].x); h.u64((uint64_t)o.ev[i].depth - (uint64_t)o.depthAtStart); }
        for (size_t i = 0; i < o.fails.size(); i++) { h.str(o.fails[i].file.c_str()); h.u64(o.fails[i].line); h.str(normalizeAddrs(o.fails[i].msg).c_str()); }
        h.str(normalizeAddrs(o.console).c_str());
        for (size_t i = 0; i < o.files.size(); i++) { h.str(o.files[i].name.c_str()); h.str(normalizeAddrs(o.files[i].data).c_str()); }
        h.u64((uint64_t)o.ret);
        r.hash = h.h;
        if (getenv("RUNSIM_HASHDUMP")) { fprintf(stderr, "==== HASHDUMP %llu\n", (unsigned long long)h.h); for (size_t i = 0; i < o.fails.size(); i++) fprintf(stderr, "F %s:%zu %s\n", o.fails[i].file.c_str(), o.fails[i].line, normalizeAddrs(o.fails[i].msg).c_str()); fprintf(stderr, "C %s\n", normalizeAddrs(o.console).c_str()); for (size_t i = 0; i < o.files.size(); i++) fprintf(stderr, "FILE %s\n%s\n", o.files[i].name.c_str(), normalizeAddrs(o.files[i].data).c_str()); }
        r.nontrivial = !o.fails.empty() || o.ret != 0;
        r.sim_ms = (int64_t)(simClock().now - (uint64_t)d.pi("clock_start"));
        if (r.sim_ms < 0 || r.sim_ms > 1000000000000LL) r.sim_ms = 0;
        checkOracles(d, o, r);
    }
    void simplifications(const Desc& d, Vec<Desc>& out) {
        // configuration knobs toward their defaults
        static const char* const knobs[] = { "via_api", "repeat", "reverse", "shuffle", "run_ignored", "verbose", "color", "use_ci", "rand_mode", "clock_start", "clock_step" };
        for (size_t k = 0; k < sizeof knobs / sizeof knobs[0]; k++) if (d.pi(knobs[k]) != 0) { Desc c = d; c.p[knobs[k]] = 0; out.push_back(c); }
        if (d.pi("repeat") > 2) { Desc c = d; c.p["repeat"] = 2; out.push_back(c); }
        if (!d.ps("package").empty()) { Desc c = d; c.sp.erase("package"); out.push_back(c); }
        // texts toward short ones, passing-check kinds toward kind 0
        for (size_t g = 0; g < d.groups.size(); g++) for (size_t i = 0; i < d.groups[g].ops.size(); i++) {
            const Op& o = d.groups[g].ops[i];
            if (o.s2.size() > 8 && (o.kind == K_PRINT || isTerminating(o.kind) || o.kind == K_PLUGIN_ERROR)) {
                // drop one special character chunk at a time from the tail
                Desc c = d; c.groups[g].ops[i].s2 = o.s2.substr(0, o.s2.size() - 2); out.push_back(c);
                Desc c2 = d; size_t us = o.s2.find('_'); if (us != Str::npos && us + 1 < o.s2.size()) { c2.groups[g].ops[i].s2 = o.s2.substr(0, us + 1) + o.s2.substr(us + 2); out.push_back(c2); }
            }
            if (!o.s.empty()) { Desc c = d; c.groups[g].ops[i].s.clear(); out.push_back(c); }
        }
        for (size_t g = 0; g < d.groups.size(); g++) if (d.groups[g].tag == "test") for (size_t k = 0; k < 3; k++) {
            const Str& s = d.groups[g].sargs[k];
            if (s.size() > 3) { Desc c = d; c.groups[g].sargs[k] = s.substr(0, s.size() - 1); out.push_back(c); Desc c2 = d; c2.groups[g].sargs[k] = s.substr(0, 2) + s.substr(3); out.push_back(c2); }
        }
    }
};
}

int main(int argc, char** argv) {
    rs::RunSim e;
    return vf::driverMain(argc, argv, e);
}
