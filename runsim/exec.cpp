// runsim/exec.cpp - runs one described world through the real CommandLineTestRunner with all seams simulated.
#include "runsim.h"
#include "CppUTest/CommandLineTestRunner.h"
#include "CppUTest/TestRegistry.h"
#include "CppUTest/TestOutput.h"
#include "CppUTest/JUnitTestOutput.h"
#include "CppUTest/TeamCityTestOutput.h"
#include "CppUTest/MemoryLeakWarningPlugin.h"
#include "CppUTest/MemoryLeakDetector.h"
#include "CppUTest/TestHarness_c.h"
#include "CppUTest/TestPlugin.h"
#include "CppUTest/TestFailure.h"
#include "CppUTest/TestResult.h"
#include "CppUTest/TestFilter.h"
#undef new
#undef malloc
#undef free
#undef calloc
#undef realloc
#undef strdup
#undef strndup
#if CPPUTEST_HAVE_EXCEPTIONS
#include <stdexcept>
#endif
#include <algorithm>
#include <signal.h>
#include <sys/wait.h>
#include <unistd.h>
#include <errno.h>
#include <stdarg.h>
#include "CppUTest/TestTestingFixture.h"
#include <fcntl.h>

namespace rs {

// ------------------------------------------------------------------ run state shared with scripted tests
struct Slot { void* p; int family; size_t size; };
struct RunState {
    const Desc* d; Obs* o;
    Vec<int> testGroups, pluginGroups;          // indexes into d->groups
    Vec<const UtestShell*> shells;
    int currentTest; int testsStartedSoFar;
    Slot slots[N_SLOTS];
    UtestShell* outsideShell;
    TestOutput* primaryOutput;
    TestRegistry* reg; Vec<TestPlugin*> pluginObjs; Vec<char> pluginInstalled;
    SetPointerPlugin* innerSetPtr;      // constructed before the first test: nested fixture runs may install it in their own registry
};
static RunState RS;
// platform realloc seam: the next call fails when a realloc op asks for it (b = 1)
// Platform heap seam. The leak detector files blocks by (address mod 73); with the C library's heap that residue changes from process to process,
// so anything that depends on which blocks share a bucket would not replay. The seam hands out addresses inside larger C-library blocks such that
// the residue of every address is a function of the run's seed and the allocation count (and, in some runs, the same for all blocks).
static void* (*g_realMalloc)(size_t) = 0; static void* (*g_realRealloc)(void*, size_t) = 0; static void (*g_realFree)(void*) = 0; static bool g_failNextRealloc = false;
struct Steered { void* raw; size_t size; };
static Map<uintptr_t, Steered>& steered() { static Map<uintptr_t, Steered>* m = new (::malloc(sizeof(Map<uintptr_t, Steered>))) Map<uintptr_t, Steered>(); return *m; }
static uint64_t g_steerSeed = 0, g_steerCount = 0; static int g_steerMode = -1;      // -1 varied residues, 0..72 every block in that bucket
static bool g_steerOn = false;
static void* steerMalloc(size_t n) {
    if (!g_steerOn) return g_realMalloc(n);
    char* raw = (char*)g_realMalloc(n + 16 * 73 + 32);
    if (!raw) return 0;
    unsigned want = g_steerMode >= 0 ? (unsigned)g_steerMode : (unsigned)(mix64(g_steerSeed, ++g_steerCount) % 73);
    uintptr_t a = ((uintptr_t)raw + 15) & ~(uintptr_t)15;
    while (a % 73 != want) a += 16;
    Steered st; st.raw = raw; st.size = n; steered()[a] = st;
    return (void*)a;
}
static void steerFree(void* p) {
    if (!p) return;
    if (steered().empty()) { g_realFree(p); return; }
    Map<uintptr_t, Steered>::iterator it = steered().find((uintptr_t)p);
    if (it == steered().end()) { g_realFree(p); return; }       // allocated before the seam existed, or in a run without steering
    void* raw = it->second.raw; steered().erase(it); g_realFree(raw);
}
static void* simRealloc(void* p, size_t n) {
    if (g_failNextRealloc) { g_failNextRealloc = false; fired("platform_realloc_null"); return 0; }
    if (!p) return steerMalloc(n);
    Map<uintptr_t, Steered>::iterator it = steered().find((uintptr_t)p);
    if (it == steered().end()) return g_realRealloc(p, n);      // a block from before the seam or from a run without steering stays what it is
    size_t old = it->second.size;
    void* q = steerMalloc(n ? n : 1);
    if (!q) return 0;
    memcpy(q, p, old < n ? old : n);
    steerFree(p);
    return q;
}
static void installHeapSeam() {
    if (g_realMalloc) return;
    g_realMalloc = PlatformSpecificMalloc; g_realRealloc = PlatformSpecificRealloc; g_realFree = PlatformSpecificFree;
    PlatformSpecificMalloc = steerMalloc; PlatformSpecificRealloc = simRealloc; PlatformSpecificFree = steerFree;
}

static int g_init[N_TARGETS];
static int g_val[N_VALUES];
static void* g_tgt[N_TARGETS];
static void* initialValueOf(int i) { return i % 3 == 1 ? (void*)0 : (void*)&g_init[i]; }      // some of the pointers a test may redirect are null before it (an optional hook)
static int64_t probePointers() {               // one nibble per target: 0 = initial value, 1+j = value j, 15 = something else
    int64_t v = 0;
    for (int i = 0; i < N_TARGETS; i++) {
        int code = 15;
        if (g_tgt[i] == initialValueOf(i)) code = 0;
        else for (int j = 0; j < N_VALUES; j++) if (g_tgt[i] == (void*)&g_val[j]) code = 1 + j;
        v |= (int64_t)code << (4 * i);
    }
    return v;
}

static void pushEv(int type, int test, int phase = 0, int op = 0, int plugin = -1, int64_t x = 0) {
    Ev e; e.type = type; e.test = test; e.phase = phase; e.op = op; e.plugin = plugin; e.x = x;
    e.depth = simJmp().depth(); e.ctxOk = UtestShell::getCurrent() == RS.outsideShell;
    RS.o->ev.push_back(e);
}

static int shellIndex(const UtestShell* s) { for (size_t i = 0; i < RS.shells.size(); i++) if (RS.shells[i] == s) return (int)i; return -1; }

struct Foreign { int x; };

// ------------------------------------------------------------------ separate-process seams (C11)
struct ProcState {
    bool inChild, synthetic; bool active;      // active: fork()/waitpid() calls belong to the simulated run (the library's own platform functions run for real, libc's are wrapped at link time)
    int test; Vec<Op> script; size_t pos; int64_t eintrLeft; int nextFake; int waitCalls;
    Vec<int> livePids;
    int pipeFd[2]; size_t childFlushPos; size_t parentFlushPos; int lastForkPid;
};
static ProcState PS;
extern "C" pid_t __real_fork(void); extern "C" pid_t __real_waitpid(pid_t, int*, int);
static void childFlushHook() {      // in a forked child: console bytes reach the outside world only when they are flushed
    const Str& c = simIO().console;
    if (!PS.inChild) { if (PS.pipeFd[1] >= 0 && RS.o) { if (PS.parentFlushPos > c.size()) PS.parentFlushPos = 0; RS.o->terminal.append(c.data() + PS.parentFlushPos, c.size() - PS.parentFlushPos); PS.parentFlushPos = c.size(); } return; }
    if (PS.pipeFd[1] < 0) return;
    while (PS.childFlushPos < c.size()) { ssize_t w = write(PS.pipeFd[1], c.data() + PS.childFlushPos, c.size() - PS.childFlushPos); if (w <= 0) break; PS.childFlushPos += (size_t)w; }
}
// The simulator process has exit-time state of its own (as any program under test may have: joinable threads, handlers that remove what the parent still
// uses). A forked test child never runs it: it ends without the runner's exit handlers. One that does is killed on the spot - its parent then sees a death.
static void exitTimeStateOfTheRunner() { if (PS.inChild) { signal(SIGABRT, SIG_DFL); abort(); } }
static void drainChildPipe(Obs& o) { if (PS.pipeFd[0] < 0) return; char buf[4096]; ssize_t n; while ((n = read(PS.pipeFd[0], buf, sizeof buf)) > 0) { o.childConsole.append(buf, (size_t)n); o.terminal.append(buf, (size_t)n); } }
static void procLog(int what, int64_t v) { RS.o->procLog.push_back(PS.test); RS.o->procLog.push_back(what); RS.o->procLog.push_back(v); }
static int simFork() {
    PS.test = RS.currentTest; PS.script.clear(); PS.pos = 0; PS.eintrLeft = -1; PS.waitCalls = 0;
    if (PS.test >= 0) { const Group& T = RS.d->groups[(size_t)RS.testGroups[(size_t)PS.test]]; for (size_t i = 0; i < T.ops.size(); i++) if (T.ops[i].phase == PH_PROC) PS.script.push_back(T.ops[i]); }
    procLog(1, 0);
    for (size_t i = 0; i < PS.script.size(); i++) if (PS.script[i].kind == K_FORK_FAIL) { procLog(5, 0); fired("fork_fail"); errno = EAGAIN; return -1; }
    if (PS.synthetic) { PS.lastForkPid = 1000000 + PS.nextFake++; return PS.lastForkPid; }
    fflush(0);
    int pid = (int)__real_fork();
    if (pid == 0) { PS.inChild = true; PS.childFlushPos = PS.parentFlushPos <= simIO().console.size() ? PS.parentFlushPos : 0; return 0; }      // the child inherits the unflushed part of the parent's output buffer
    if (pid > 0) PS.livePids.push_back(pid);
    PS.lastForkPid = pid;
    return pid;
}
static int simWaitPid(int pid, int* status, int options) {
    procLog(2, ++PS.waitCalls);
    if (pid != PS.lastForkPid) { procLog(6, pid); fired("wait_for_another_child"); }      // the parent waits for something other than the child it forked for this test
    while (PS.pos < PS.script.size()) {
        const Op& o = PS.script[PS.pos];
        if (o.kind == K_W_EINTR) {
            if (PS.eintrLeft < 0) PS.eintrLeft = o.a;
            if (PS.eintrLeft > 0) { PS.eintrLeft--; fired("wait_eintr"); errno = EINTR; return -1; }
            PS.eintrLeft = -1; PS.pos++; continue;
        }
        if (!PS.synthetic && o.kind == K_W_ERR) { PS.pos++; fired("wait_error_while_a_real_child_runs"); errno = (int)o.a; return -1; }      // the wait itself fails (ECHILD when the program ignores SIGCHLD, ...): the child stays what it is and is collected at the end of the run
        if (!PS.synthetic) { PS.pos++; continue; }
        PS.pos++;
        if (o.kind == K_W_ERR) { fired("wait_error"); errno = (int)o.a; return -1; }
        if (o.kind == K_W_STOP) {
            // a stop is only reported to a waiter that asks for it; without WUNTRACED the parent would sleep on a stopped child for ever
            if (!(options & WUNTRACED)) { fired("stop_not_asked_for"); procLog(4, PS.waitCalls); PS.pos = PS.script.size(); *status = 0; return pid; }
            fired("child_stop"); *status = (int)((o.a << 8) | 0x7f); return pid; }
        if (o.kind == K_W_EXIT) { fired("child_exit"); *status = (int)((o.a & 0xff) << 8); return pid; }
        if (o.kind == K_W_SIGNAL) { fired("child_signal"); *status = (int)(o.a | (o.b ? 0x80 : 0)); return pid; }
    }
    if (PS.synthetic) { procLog(4, PS.waitCalls); *status = 0; return pid; }     // the code under test keeps waiting although the child is gone: reported as a hang
    int r = (int)__real_waitpid(pid, status, options);
    drainChildPipe(*RS.o);
    if (r == pid && (WIFEXITED(*status) || WIFSIGNALED(*status))) { for (size_t i = 0; i < PS.livePids.size(); i++) if (PS.livePids[i] == pid) { PS.livePids.erase(PS.livePids.begin() + (long)i); break; } fired(WIFSIGNALED(*status) ? "real_child_killed_by_signal" : "real_child_exited"); }
    else if (r == pid && WIFSTOPPED(*status)) fired("real_child_stopped");
    return r;
}
// The file layer one level down: the platform's own FOpen/FPuts/FClose/Flush (src/Platforms/Gcc/UtestPlatform.cpp) run; what they call in libc is wrapped
// at link time and, while a simulated run is under way, served by the in-memory file layer (stdout is the simulated console).
static bool g_fileLayerActive = false;
extern "C" FILE* __real_fopen(const char*, const char*); extern "C" int __real_fputs(const char*, FILE*); extern "C" int __real_fclose(FILE*); extern "C" int __real_fflush(FILE*);
static bool isSimFile(FILE* f) { SimIO& io = simIO(); for (size_t i = 0; i < io.files.size(); i++) if ((FILE*)io.files[i] == f) return true; return false; }
extern "C" FILE* __wrap_fopen(const char* name, const char* mode) { return g_fileLayerActive ? (FILE*)simFOpen(name, mode) : __real_fopen(name, mode); }
extern "C" int __wrap_fputs(const char* s, FILE* f) {
    if (g_fileLayerActive && f == stdout) { simFPuts(s, (PlatformSpecificFile)&simStdoutTag); return 1; }
    if (g_fileLayerActive && isSimFile(f)) { simFPuts(s, (PlatformSpecificFile)f); return 1; }
    return __real_fputs(s, f);
}
// ... and the other ways libc offers to write the same bytes (a platform layer may use any of them)
static PlatformSpecificFile simTarget(FILE* f) { if (!g_fileLayerActive) return 0; if (f == stdout) return (PlatformSpecificFile)&simStdoutTag; return isSimFile(f) ? (PlatformSpecificFile)f : 0; }
extern "C" size_t __real_fwrite(const void*, size_t, size_t, FILE*); extern "C" int __real_fputc(int, FILE*); extern "C" int __real_putc(int, FILE*); extern "C" int __real_putchar(int); extern "C" int __real_puts(const char*);
extern "C" int __real_vfprintf(FILE*, const char*, va_list); extern "C" int __real_vprintf(const char*, va_list);
extern "C" size_t __wrap_fwrite(const void* p, size_t sz, size_t n, FILE* f) { PlatformSpecificFile t = simTarget(f); if (!t) return __real_fwrite(p, sz, n, f); simFWrite((const char*)p, sz * n, t); return n; }
extern "C" int __wrap_fputc(int c, FILE* f) { PlatformSpecificFile t = simTarget(f); if (!t) return __real_fputc(c, f); char ch = (char)c; simFWrite(&ch, 1, t); return (unsigned char)ch; }
extern "C" int __wrap_putc(int c, FILE* f) { return __wrap_fputc(c, f); }
extern "C" int __wrap_putchar(int c) { return __wrap_fputc(c, stdout); }
extern "C" int __wrap_puts(const char* s) { PlatformSpecificFile t = simTarget(stdout); if (!t) return __real_puts(s); simFPuts(s, t); simFWrite("\n", 1, t); return 1; }
extern "C" int __wrap_vfprintf(FILE* f, const char* fmt, va_list ap) {
    PlatformSpecificFile t = simTarget(f); if (!t) return __real_vfprintf(f, fmt, ap);
    va_list ap2; va_copy(ap2, ap); int n = vsnprintf(0, 0, fmt, ap2); va_end(ap2); if (n < 0) return n;
    char* buf = (char*)::malloc((size_t)n + 1); vsnprintf(buf, (size_t)n + 1, fmt, ap); simFWrite(buf, (size_t)n, t); ::free(buf); return n;
}
extern "C" int __wrap_fprintf(FILE* f, const char* fmt, ...) { va_list ap; va_start(ap, fmt); int n = __wrap_vfprintf(f, fmt, ap); va_end(ap); return n; }
extern "C" int __wrap_vprintf(const char* fmt, va_list ap) { return __wrap_vfprintf(stdout, fmt, ap); }
extern "C" int __wrap_printf(const char* fmt, ...) { va_list ap; va_start(ap, fmt); int n = __wrap_vfprintf(stdout, fmt, ap); va_end(ap); return n; }
extern "C" int __wrap_fclose(FILE* f) { if (g_fileLayerActive && isSimFile(f)) { simFClose((PlatformSpecificFile)f); return 0; } return __real_fclose(f); }
extern "C" int __wrap_fflush(FILE* f) { if (g_fileLayerActive && f == stdout) { simFlush(); return 0; } return __real_fflush(f); }
extern "C" pid_t __wrap_fork(void) { return PS.active ? (pid_t)simFork() : __real_fork(); }
extern "C" pid_t __wrap_waitpid(pid_t pid, int* status, int options) { return PS.active ? (pid_t)simWaitPid((int)pid, status, options) : __real_waitpid(pid, status, options); }
extern "C" int __real_kill(pid_t pid, int sig);
extern "C" int __wrap_kill(pid_t pid, int sig) {
    if (RS.o && PS.active) { procLog(3, sig); if (pid >= 1000000) return 0; }
    return __real_kill(pid, sig);
}

static void fillPattern(void* p, size_t n, int slot) { unsigned char* c = (unsigned char*)p; for (size_t i = 0; i < n; i++) c[i] = (unsigned char)(0x41 + (slot + (int)i) % 26); }

static uint64_t g_fired[K_COUNT];
class SilentLeakFailure : public MemoryLeakFailure { public: void fail(char*) CPPUTEST_OVERRIDE {} };
static void throwOrAbort(bool doThrow) {
#if CPPUTEST_HAVE_EXCEPTIONS
    if (doThrow) throw std::runtime_error("thrown by a plugin action");
#else
    (void)doThrow;
#endif
    abort();
}
// every C-language check function, failing. They leave the test by longjmp: a frame that no C++ exception may cross (noexcept, like
// compiled C code without unwind tables) must not be a problem for any of them.
static void failCStyle(const Op& o, const char* text, const char* file, size_t line) noexcept {
    static const unsigned char ba[4] = { 1, 2, 3, 4 }, bb[4] = { 1, 2, 9, 4 };
    switch (o.a) {
    case 0: CHECK_C_LOCATION(0, "cond_c", text, file, line); break;
    case 1: FAIL_TEXT_C_LOCATION(text, file, line); break;
    case 2: CHECK_EQUAL_C_INT_LOCATION(1, 2, text, file, line); break;
    case 3: CHECK_EQUAL_C_STRING_LOCATION("abc", "abd", text, file, line); break;
    case 4: CHECK_EQUAL_C_STRING_LOCATION(0, "abd", text, file, line); break;
    case 5: CHECK_EQUAL_C_STRING_LOCATION("abc", 0, text, file, line); break;
    case 6: CHECK_EQUAL_C_BOOL_LOCATION(1, 0, text, file, line); break;
    case 7: CHECK_EQUAL_C_UINT_LOCATION(1u, 2u, text, file, line); break;
    case 8: CHECK_EQUAL_C_LONG_LOCATION(1L, 2L, text, file, line); break;
    case 9: CHECK_EQUAL_C_ULONG_LOCATION(1UL, 2UL, text, file, line); break;
    case 10: CHECK_EQUAL_C_LONGLONG_LOCATION(1LL, 2LL, text, file, line); break;
    case 11: CHECK_EQUAL_C_ULONGLONG_LOCATION(1ULL, 2ULL, text, file, line); break;
    case 12: CHECK_EQUAL_C_REAL_LOCATION(1.0, 2.0, 0.1, text, file, line); break;
    case 13: CHECK_EQUAL_C_CHAR_LOCATION('a', 'b', text, file, line); break;
    case 14: CHECK_EQUAL_C_UBYTE_LOCATION(1, 2, text, file, line); break;
    case 15: CHECK_EQUAL_C_SBYTE_LOCATION(-1, 2, text, file, line); break;
    case 16: CHECK_EQUAL_C_POINTER_LOCATION((void*)0x1000, (void*)0x2000, text, file, line); break;
    case 17: CHECK_EQUAL_C_MEMCMP_LOCATION(ba, bb, 4, text, file, line); break;
    case 18: CHECK_EQUAL_C_MEMCMP_LOCATION(0, bb, 4, text, file, line); break;
    default: CHECK_EQUAL_C_BITS_LOCATION(0x0f, 0xf0, 0xff, 1, text, file, line); break;
    }
}
static void nestedPassingTest() { CHECK(true); }
static void nestedFailingTest() { FAIL("the nested test fails"); }
static void execOp(const Group& T, const Op& o) {
    g_fired[o.kind]++;
    const char* file = o.s.empty() ? T.sarg(2) : o.s.c_str();
    size_t line = (size_t)o.d;
    const char* text = o.s2.c_str();
    static const char blobA[4] = { 1, 2, 3, 4 }; static const char blobB[4] = { 1, 2, 9, 4 };
    switch (o.kind) {
    case K_MARK: break;
    case K_PASS:
        switch (o.a) {
        case 0: CHECK_TRUE_LOCATION(true, "CHECK_TRUE", "true", NULLPTR, file, line); break;
        case 1: CHECK_FALSE_LOCATION(false, "CHECK_FALSE", "false", NULLPTR, file, line); break;
        case 2: CHECK_EQUAL_LOCATION(3, 3, NULLPTR, file, line); break;
        case 3: LONGS_EQUAL_LOCATION(-7, -7, NULLPTR, file, line); break;
        case 4: STRCMP_EQUAL_LOCATION("abc", "abc", NULLPTR, file, line); break;
        case 5: DOUBLES_EQUAL_LOCATION(1.0, 1.05, 0.1, NULLPTR, file, line); break;
        case 6: POINTERS_EQUAL_LOCATION((void*)0x1000, (void*)0x1000, NULLPTR, file, line); break;
        case 7: MEMCMP_EQUAL_LOCATION(blobA, blobA, 4, NULLPTR, file, line); break;
        case 8: BITS_LOCATION(0x0F, 0xFF, 0x0F, NULLPTR, file, line); break;
        case 9: CHECK_COMPARE_LOCATION(1, <, 2, NULLPTR, file, line); break;          // a passing comparison is not counted
        case 10: CHECK_C_LOCATION(1, "1", NULLPTR, file, line); break;
        case 11: CHECK_EQUAL_C_INT_LOCATION(5, 5, NULLPTR, file, line); break;
        case 12: CHECK_EQUAL_C_STRING_LOCATION("s", "s", NULLPTR, file, line); break;
        case 14: MEMCMP_EQUAL_LOCATION(blobA, blobB, 0, NULLPTR, file, line); break;      // a comparison of zero bytes passes and is a check like any other
        default: UNSIGNED_LONGS_EQUAL_LOCATION(9, 9, NULLPTR, file, line); break;
        }
        break;
    case K_FAIL_CPP:
        switch (o.a) {
        case 0: CHECK_TRUE_LOCATION(false, "CHECK_TRUE", "cond", text, file, line); break;
        case 1: FAIL_LOCATION(text, file, line); break;
        case 2: LONGS_EQUAL_LOCATION(1, 2, text, file, line); break;
        case 3: STRCMP_EQUAL_LOCATION("abc", "abd", text, file, line); break;
        case 4: CHECK_EQUAL_LOCATION(1, 2, text, file, line); break;
        case 5: DOUBLES_EQUAL_LOCATION(1.0, 2.0, 0.1, text, file, line); break;
        case 6: MEMCMP_EQUAL_LOCATION(blobA, blobB, 4, text, file, line); break;
        case 7: POINTERS_EQUAL_LOCATION((void*)0x1000, (void*)0x2000, text, file, line); break;
        case 8: CHECK_FALSE_LOCATION(true, "CHECK_FALSE", "cond", text, file, line); break;
        case 9: CHECK_COMPARE_LOCATION(2, <, 1, text, file, line); break;
        case 10: STRNCMP_EQUAL_LOCATION("abcd", "abxd", 3, text, file, line); break;
        case 11: STRCMP_NOCASE_EQUAL_LOCATION("abc", "ABD", text, file, line); break;
        case 12: STRCMP_CONTAINS_LOCATION("zz", "abc", text, file, line); break;
        case 13: STRCMP_NOCASE_CONTAINS_LOCATION("ZZ", "abc", text, file, line); break;
        case 14: UNSIGNED_LONGS_EQUAL_LOCATION(1, 2, text, file, line); break;
        case 15: LONGLONGS_EQUAL_LOCATION(1, 2, text, file, line); break;
        case 16: UNSIGNED_LONGLONGS_EQUAL_LOCATION(1, 2, text, file, line); break;
        case 17: SIGNED_BYTES_EQUAL_TEXT_LOCATION(1, 2, text, file, line); break;
        case 18: FUNCTIONPOINTERS_EQUAL_LOCATION((void (*)())0x1000, (void (*)())0x2000, text, file, line); break;
        case 19: BITS_LOCATION(0x0f, 0xf0, 0xff, text, file, line); break;
        case 20: STRCMP_EQUAL_LOCATION((const char*)0, "abd", text, file, line); break;
        case 21: MEMCMP_EQUAL_LOCATION((const void*)0, blobB, 4, text, file, line); break;
        case 22: FAIL_TEST_LOCATION(text, file, line); break;
        case 24: fired("operands_with_coinciding_or_unprintable_forms"); STRCMP_EQUAL_LOCATION(operandPair(o.b).expected, operandPair(o.b).actual, text, file, line); break;
        case 25: fired("operands_with_coinciding_or_unprintable_forms"); STRCMP_NOCASE_EQUAL_LOCATION(operandPair(o.b).expected, operandPair(o.b).actual, text, file, line); break;
        case 26: fired("operands_with_coinciding_or_unprintable_forms"); CHECK_EQUAL_LOCATION(1.00000001, 1.00000002, text, file, line); break;      // two values that differ and print alike
        case 27: fired("operands_with_coinciding_or_unprintable_forms"); CHECK_EQUAL_LOCATION(SimpleString(operandPair(o.b).expected), SimpleString(operandPair(o.b).actual), text, file, line); break;
        case 28: { fired("bit_comparison_of_every_operand_width"); const BitsCase& bc = bitsCase(o.b);
            if (bc.bytes == 1) { unsigned char e = (unsigned char)bc.expected, a = (unsigned char)bc.actual; BITS_LOCATION(e, a, bc.mask, text, file, line); }
            else if (bc.bytes == 2) { unsigned short e = (unsigned short)bc.expected, a = (unsigned short)bc.actual; BITS_LOCATION(e, a, bc.mask, text, file, line); }
            else if (bc.bytes == 4) { unsigned int e = (unsigned int)bc.expected, a = (unsigned int)bc.actual; BITS_LOCATION(e, a, bc.mask, text, file, line); }
            else { unsigned long e = bc.expected, a = bc.actual; BITS_LOCATION(e, a, bc.mask, text, file, line); }
            break; }
        case 29: STRCMP_CONTAINS_LOCATION((const char*)0, "abc", text, file, line); break;      // exactly one operand is the null pointer (both forms, both orders)
        case 30: STRCMP_CONTAINS_LOCATION("abc", (const char*)0, text, file, line); break;
        case 31: STRCMP_NOCASE_CONTAINS_LOCATION((const char*)0, "abc", text, file, line); break;
        case 32: STRCMP_NOCASE_CONTAINS_LOCATION("abc", (const char*)0, text, file, line); break;
        case 33: STRNCMP_EQUAL_LOCATION("abc", (const char*)0, 2, text, file, line); break;
        case 34: STRCMP_NOCASE_EQUAL_LOCATION((const char*)0, "abc", text, file, line); break;
        default: ENUMS_EQUAL_TYPE_LOCATION(int, 1, 2, text, file, line); break;
        }
        break;
    case K_FAIL_C: failCStyle(o, text, file, line); break;
#if CPPUTEST_HAVE_EXCEPTIONS
    case K_THROW_STD: throw std::runtime_error(text);
    case K_THROW_FOREIGN: if (o.a == 0) throw 42; else { Foreign f; f.x = 7; throw f; }
#endif
    case K_PRINT: UT_PRINT_LOCATION(text, file, line); break;
    case K_CLOCK: simClock().advance(o.a); fired(o.a < 0 ? "clock_jump_back" : (o.a > 3600000 ? "clock_jump_fwd" : "clock_advance")); break;
    case K_ALLOC: {
        Slot& s = RS.slots[o.a % N_SLOTS];
        if (s.p) break;
        size_t n = (size_t)o.c; void* p = 0;
        switch (o.b) {
        case 0: p = ::operator new(n, file, line); break;
        case 1: p = ::operator new[](n, file, line); break;
        case 2: p = cpputest_malloc_location(n, file, line); break;
        case 3: p = ::operator new(n); break;
        default: p = ::operator new[](n); break;
        }
        fillPattern(p, n, (int)(o.a % N_SLOTS));
        s.p = p; s.family = (int)o.b; s.size = n;
        break;
    }
    case K_FREE: {
        Slot& s = RS.slots[o.a % N_SLOTS];
        if (!s.p) break;
        void* p = s.p; int fam = s.family; s.p = 0;
        if (fam == 0 || fam == 3) ::operator delete(p);
        else if (fam == 1 || fam == 4) ::operator delete[](p);
        else cpputest_free_location(p, file, line);
        break;
    }
    case K_REALLOC: {
        Slot& s = RS.slots[o.a % N_SLOTS];
        if (!s.p || s.family != 2) break;
        if (o.b == 1) {                      // the platform's realloc answers NULL: the block stays what and whose it was
            g_failNextRealloc = true;
            void* q = cpputest_realloc_location(s.p, (size_t)o.c, file, line);
            if (g_failNextRealloc && RS.o) { RS.o->reallocFaultUnused.push_back(o.d); fired("realloc_fault_never_asked_for"); }      // no platform realloc was called: nothing failed, an ordinary reallocation
            else if (q && RS.o) { RS.o->reallocFaultUnused.push_back(o.d); fired("realloc_served_after_a_platform_failure"); }      // the detector asked the platform again and was served: an ordinary reallocation as well
            g_failNextRealloc = false;
            if (q) { s.p = q; s.size = (size_t)o.c; fillPattern(q, s.size, (int)(o.a % N_SLOTS)); }
            break;
        }
        void* p = cpputest_realloc_location(s.p, (size_t)o.c, file, line);
        s.p = p; s.size = (size_t)o.c; fillPattern(p, s.size, (int)(o.a % N_SLOTS));
        break;
    }
    case K_EXPECT_LEAKS: EXPECT_N_LEAKS((size_t)o.a); break;
    case K_IGNORE_LEAKS: IGNORE_ALL_LEAKS_IN_TEST(); break;
    case K_DIE_SIGNAL: if (PS.inChild) {      // whatever disposition or mask the simulator's own parent handed down (nohup, background job): the child dies by the default action
        fflush(0); raise((int)o.a); } break;
    case K_DIE_EXIT: if (PS.inChild) _exit((int)o.a); break;
    case K_DIE_ABORT: if (PS.inChild) { signal(SIGABRT, SIG_DFL); abort(); } break;
    case K_DIE_STOP: if (PS.inChild) raise(SIGSTOP); break;       // (SIGSTOP can be neither ignored nor blocked)
    case K_PLUGIN_INSTALL: { size_t p = (size_t)o.a; if (p < RS.pluginObjs.size() && !RS.pluginInstalled[p]) { RS.reg->installPlugin(RS.pluginObjs[p]); RS.pluginInstalled[p] = 1; } break; }
    case K_OTHER_LEAK_PLUGIN: {
        static SilentLeakFailure silent;
        MemoryLeakDetector* local = new MemoryLeakDetector(&silent);
        { MemoryLeakWarningPlugin other("OtherLeakPlugin", local); }
        delete local;
        break;
    }
    case K_MISUSE_FREE: { static char neverAllocated[16]; fired("release_of_an_address_never_allocated_inside_a_test"); cpputest_free_location(neverAllocated, file, (size_t)line); break; }
    case K_DETECTOR_OFF: MemoryLeakWarningPlugin::getGlobalDetector()->disable(); fired("detector_left_switched_off_by_a_failing_test"); break;
    case K_NESTED_RUN: {      // as the library's own tests do: a fixture with a registry, output and result of its own runs one test; afterwards the outer test is current again
        TestTestingFixture fx; fx.setTestFunction(o.a ? nestedFailingTest : nestedPassingTest);
        if ((o.b & 1) && RS.innerSetPtr) { fx.installPlugin(RS.innerSetPtr); fired("nested_run_with_its_own_pointer_plugin"); }      // its post action restores (early) what the outer test redirected so far
        fx.runAllTests();
        break; }
    case K_ADD_FAILURES: { UtestShell* cur = UtestShell::getCurrent(); for (int64_t n = 0; n < o.a; n++) cur->addFailure(TestFailure(cur, file, line, SimpleString(text))); break; }
    case K_PLUGIN_REMOVE: { size_t p = (size_t)o.a; if (p < RS.pluginObjs.size()) { if (!RS.pluginInstalled[p]) fired("remove_plugin_name_that_is_not_installed"); RS.reg->removePluginByName(RS.pluginObjs[p]->getName()); RS.pluginInstalled[p] = 0; } break; }   // a name that is not installed: nothing may change
    case K_PTR_SET: UT_PTR_SET(g_tgt[o.a % N_TARGETS], (void*)&g_val[o.b % N_VALUES]); break;
    default: break;
    }
}

static void runPhase(int testIdx, int phase) {
    const Group& T = RS.d->groups[(size_t)RS.testGroups[(size_t)testIdx]];
    if (phase == PH_SETUP) pushEv(E_PROBE, testIdx, phase, 0, -1, probePointers());
    for (size_t i = 0; i < T.ops.size(); i++) {
        if (T.ops[i].phase != phase) continue;
        pushEv(E_OP, testIdx, phase, (int)i);
        execOp(T, T.ops[i]);
    }
}

class SimTest : public Utest {
public:
    int idx;
    explicit SimTest(int i) : idx(i) {}
    void setup() CPPUTEST_OVERRIDE { runPhase(idx, PH_SETUP); }
    void testBody() CPPUTEST_OVERRIDE { runPhase(idx, PH_BODY); }
    void teardown() CPPUTEST_OVERRIDE { runPhase(idx, PH_TEARDOWN); }
};

class SimShell : public UtestShell {
public:
    int idx;
    SimShell(const char* g, const char* n, const char* f, size_t l, int i) : UtestShell(g, n, f, l), idx(i) {}
    Utest* createTest() CPPUTEST_OVERRIDE { return new SimTest(idx); }
};
class SimIgnoredShell : public IgnoredUtestShell {
public:
    int idx;
    SimIgnoredShell(const char* g, const char* n, const char* f, size_t l, int i) : IgnoredUtestShell(g, n, f, l), idx(i) {}
    Utest* createTest() CPPUTEST_OVERRIDE { return new SimTest(idx); }
};

class SimPlugin : public TestPlugin {
public:
    int pidx; int calls;
    SimPlugin(const SimpleString& name, int p) : TestPlugin(name), pidx(p), calls(0) {}
    void act(UtestShell& test, TestResult& result, int phase) {
        const Group& P = RS.d->groups[(size_t)RS.pluginGroups[(size_t)pidx]];
        int t = shellIndex(&test);
        for (size_t i = 0; i < P.ops.size(); i++) {
            const Op& o = P.ops[i];
            if (o.phase != phase) continue;
            if (o.kind == K_PLUGIN_ERROR) {
                if (o.a > 1 && (calls % (int)o.a) != 0) continue;
                pushEv(E_OP, t, phase, (int)i, pidx);
                fired("plugin_error");
                result.addFailure(TestFailure(&test, "plugin.cpp", (size_t)o.d, o.s2.c_str()));
            } else if (o.kind == K_DIE_SIGNAL || o.kind == K_DIE_EXIT || o.kind == K_DIE_ABORT) {     // the child dies inside a plugin action (separate-process mode)
                pushEv(E_OP, t, phase, (int)i, pidx);
                if (PS.inChild) { if (o.kind == K_DIE_SIGNAL) { fflush(0); raise((int)o.a); } else if (o.kind == K_DIE_EXIT) _exit((int)o.a); else { signal(SIGABRT, SIG_DFL); throwOrAbort(o.b == 1); } }
            } else if (o.kind == K_PLUGIN_REMOVE && phase == PH_PRE) {      // a plugin's pre action takes a plugin out of the chain that sits behind it (was installed earlier): that one sees nothing of this test any more
                pushEv(E_OP, t, phase, (int)i, pidx);
                size_t q = (size_t)o.a; if (q < RS.pluginObjs.size()) { if (RS.pluginInstalled[q]) fired((int)q == pidx ? "plugin_removes_itself_in_its_pre_action" : "plugin_removed_by_a_pre_action"); RS.reg->removePluginByName(RS.pluginObjs[q]->getName()); RS.pluginInstalled[q] = 0; }
            } else pushEv(E_OP, t, phase, (int)i, pidx);
        }
    }
    void preTestAction(UtestShell& test, TestResult& result) CPPUTEST_OVERRIDE { act(test, result, PH_PRE); }
    void postTestAction(UtestShell& test, TestResult& result) CPPUTEST_OVERRIDE { act(test, result, PH_POST); calls++; }
};

// ------------------------------------------------------------------ recording outputs (thin: record, then the real behaviour)
static void recFailure(const TestFailure& f) {
    FailRec r;
    r.testName = f.getTestName().asCharString(); r.file = f.getFileName().asCharString(); r.msg = f.getMessage().asCharString();
    r.testFile = f.getTestFileName().asCharString(); r.line = f.getFailureLineNumber(); r.testLine = f.getTestLineNumber();
    r.atEvent = RS.o->ev.size();
    RS.o->fails.push_back(r);
    pushEv(E_FAILURE, RS.currentTest, 0, (int)RS.o->fails.size() - 1);
}
static void recTestsEnded(const TestResult& res) {
    Summary s; s.tests = res.getTestCount(); s.run = res.getRunCount(); s.checks = res.getCheckCount(); s.ignored = res.getIgnoredCount();
    s.filtered = res.getFilteredOutCount(); s.failures = res.getFailureCount(); s.isFailure = res.isFailure();
    RS.o->sums.push_back(s);
    pushEv(E_TESTS_END, -1);
}
#define REC_OVERRIDES(Base) \
    void printTestsStarted() CPPUTEST_OVERRIDE { if (RS.primaryOutput == this) pushEv(E_TESTS_START, -1); Base::printTestsStarted(); } \
    void printTestsEnded(const TestResult& r) CPPUTEST_OVERRIDE { if (RS.primaryOutput == this) recTestsEnded(r); Base::printTestsEnded(r); } \
    void printCurrentTestStarted(const UtestShell& t) CPPUTEST_OVERRIDE { if (RS.primaryOutput == this) { RS.currentTest = shellIndex(&t); pushEv(E_TEST_START, RS.currentTest, 0, 0, -1, t.willRun()); } Base::printCurrentTestStarted(t); } \
    void printCurrentTestEnded(const TestResult& r) CPPUTEST_OVERRIDE { if (RS.primaryOutput == this) pushEv(E_TEST_END, RS.currentTest); Base::printCurrentTestEnded(r); } \
    void printCurrentGroupStarted(const UtestShell& t) CPPUTEST_OVERRIDE { if (RS.primaryOutput == this) pushEv(E_GROUP_START, shellIndex(&t)); Base::printCurrentGroupStarted(t); } \
    void printCurrentGroupEnded(const TestResult& r) CPPUTEST_OVERRIDE { if (RS.primaryOutput == this) pushEv(E_GROUP_END, -1); Base::printCurrentGroupEnded(r); } \
    void printFailure(const TestFailure& f) CPPUTEST_OVERRIDE { if (RS.primaryOutput == this) recFailure(f); Base::printFailure(f); }

class RecConsole : public ConsoleTestOutput { public: REC_OVERRIDES(ConsoleTestOutput) };
class RecJUnit : public JUnitTestOutput { public: REC_OVERRIDES(JUnitTestOutput)
    void print(const char* s) CPPUTEST_OVERRIDE { if (RS.primaryOutput == this && RS.o && !PS.inChild) RS.o->printedChunks.push_back(s ? s : ""); JUnitTestOutput::print(s); } };
class RecTeamCity : public TeamCityTestOutput { public: REC_OVERRIDES(TeamCityTestOutput) };

class SimRunner : public CommandLineTestRunner {
public:
    SimRunner(int ac, const char* const* av, TestRegistry* reg) : CommandLineTestRunner(ac, av, reg) {}
protected:
    TestOutput* note(TestOutput* o) { if (!RS.primaryOutput) RS.primaryOutput = o; return o; }
    TestOutput* createConsoleOutput() CPPUTEST_OVERRIDE { return note(new RecConsole); }
    TestOutput* createTeamCityOutput() CPPUTEST_OVERRIDE { return note(new RecTeamCity); }
    TestOutput* createJUnitOutput(const SimpleString& pkg) CPPUTEST_OVERRIDE { RecJUnit* j = new RecJUnit; j->setPackageName(pkg); return note(j); }
};

// Leak entries inside one report are listed in hash-bucket (= address) order: sort them for the event-log hash.
// The order in which a report lists its blocks (and, when it runs out of room, which of them it lists at all) follows the detector's table, i.e.
// addresses: for the event-log hash the entries of every report are sorted, and a report that ran out of room is reduced to a marker. Reports also
// sit inside XML attributes (JUnit output), where a line break reads &#10;.
static Str canonLeakOrderWith(const Str& in, const Str& nl) {
    const Str head = Str("Memory leak(s) found.") + nl, entry = "Alloc num (";
    Str out; size_t pos = 0;
    while (true) {
        size_t h = in.find(head, pos);
        if (h == Str::npos) { out += in.substr(pos); break; }
        size_t body = h + head.size();
        size_t end = in.find("Total number of leaks:", body);
        if (end == Str::npos) end = in.size();
        out += in.substr(pos, body - pos);
        Vec<Str> entries; size_t e = body;
        while (e < end) { size_t nx = in.find(entry, e + 1); if (nx == Str::npos || nx > end) nx = end; entries.push_back(in.substr(e, nx - e)); e = nx; }
        std::sort(entries.begin(), entries.end());
        bool ranOut = end - body + 600 >= (size_t)SimpleStringBuffer::SIMPLE_STRING_BUFFER_LEN;      // (the listing nearly fills the detector's buffer)
        if (ranOut) out += "<which entries fit depends on address order>";
        else for (size_t i = 0; i < entries.size(); i++) out += entries[i];
        pos = end;
    }
    return out;
}
static Str canonLeakOrder(const Str& in) { return canonLeakOrderWith(canonLeakOrderWith(in, "\n"), "&#10;"); }

static Str normalizeAddrs0(const Str& in) {
    Str out; out.reserve(in.size());
    for (size_t i = 0; i < in.size();) {
        if (in[i] == '<' && i + 3 < in.size() && in[i + 1] == '0' && in[i + 2] == 'x') {
            size_t j = i + 3; while (j < in.size() && isxdigit((unsigned char)in[j])) j++;
            if (j < in.size() && in[j] == '>') { out += "<ADDR>"; i = j + 1; continue; }
        }
        if (in.compare(i, 6, "&lt;0x") == 0) {      // the same address inside an XML attribute
            size_t j = i + 6; while (j < in.size() && isxdigit((unsigned char)in[j])) j++;
            if (in.compare(j, 4, "&gt;") == 0) { out += "<ADDR>"; i = j + 4; continue; }
        }
        if (in.compare(i, 11, "Alloc num (") == 0) {          // allocation numbers grow over the life of a worker
            size_t j = i + 11; while (j < in.size() && isdigit((unsigned char)in[j])) j++;
            if (j < in.size() && in[j] == ')') { out += "Alloc num (N)"; i = j + 1; continue; }
        }
        out += in[i++];
    }
    return out;
}
Str normalizeAddrs(const Str& in) { return canonLeakOrder(normalizeAddrs0(in)); }

// EXPECT_N_LEAKS / IGNORE_ALL_LEAKS_IN_TEST address the first leak plugin ever constructed in the process through
// MemoryLeakWarningPlugin::getFirstPlugin(), a static that is never cleared. Every run therefore constructs its own fresh
// plugin (and, through destroyGlobalDetector(), its own fresh detector) *in the same storage*, so the static stays valid
// and no state of one run can leak into the next.
static char* leakPluginStorage() { static char* p = (char*)::malloc(sizeof(MemoryLeakWarningPlugin)); return p; }

// The library's own static entry point CommandLineTestRunner::RunAllTests(argc, argv) - the one a test program's main() calls - on a tiny
// registry with one plugin of the user's, a failing run first and a passing run after it: whatever the result, the registry must be left with
// exactly the user's plugin, and the value returned is zero exactly for the passing run.
static int g_miniMode = 0, g_miniRuns = 0;
static void miniBody() { g_miniRuns++; if (g_miniMode == 1) FAIL_TEST_LOCATION("mini failure", "mini.cpp", 7); CHECK_TRUE_LOCATION(true, "CHECK_TRUE", "true", NULLPTR, "mini.cpp", 8); }
class CountingPlugin : public TestPlugin { public: int pre, post; CountingPlugin() : TestPlugin("UsersPlugin"), pre(0), post(0) {} void preTestAction(UtestShell&, TestResult&) CPPUTEST_OVERRIDE { pre++; } void postTestAction(UtestShell&, TestResult&) CPPUTEST_OVERRIDE { post++; } };
static void staticWrapperEpilogue(const Desc& d, Obs& o) {
    fired("static_run_all_tests_entry_point");
    MemoryLeakWarningPlugin::turnOnDefaultNotThreadSafeNewDeleteOverloads();
    TestRegistry* saved = TestRegistry::getCurrentRegistry();
    {
        TestRegistry mini; mini.setCurrentRegistry(&mini);
        CountingPlugin users; mini.installPlugin(&users);
        ExecFunctionTestShell shell; ExecFunctionWithoutParameters fn(miniBody); shell.testFunction_ = &fn; mini.addTest(&shell);
        const char* av[] = { "prog" };
        int order = (int)d.pi("static_wrapper");      // 1: failing run first, 2: passing run first
        for (int round = 0; round < 2; round++) {
            g_miniMode = (round == 0) == (order == 1) ? 1 : 0; g_miniRuns = 0; int pre0 = users.pre;
            int ret = CommandLineTestRunner::RunAllTests(1, av);
            MemoryLeakWarningPlugin::turnOnDefaultNotThreadSafeNewDeleteOverloads();
            if ((ret == 0) != (g_miniMode == 0)) o.wrapperProblems += sfmt("round %d (%s test): RunAllTests returned %d; ", round, g_miniMode ? "failing" : "passing", ret);
            if (g_miniRuns != 1 || users.pre != pre0 + 1 || users.post != users.pre) o.wrapperProblems += sfmt("round %d: the test ran %d times, the user's plugin saw %d pre and %d post actions in total; ", round, g_miniRuns, users.pre, users.post);
            if (mini.countPlugins() != 1 || mini.getFirstPlugin() != &users || mini.getPluginByName(DEF_PLUGIN_MEM_LEAK) != 0) { o.wrapperProblems += sfmt("round %d: %d plugins installed after the runner returned (the user installed 1); ", round, mini.countPlugins()); break; }
        }
        shell.testFunction_ = 0;
        mini.resetPlugins();
    }
    saved->setCurrentRegistry(0);
    MemoryLeakWarningPlugin::turnOnDefaultNotThreadSafeNewDeleteOverloads();
}

void executeRun(const Desc& d, Obs& o) {
    {   // Once per process, before the first run that counts: a handful of fixed runs on the ordinary heap. The library creates function-local statics on
        // first use (the null plugin's name, ...); done here, their allocations take no part in the address steering of any real run, so a run behaves the
        // same as the first of a fresh process and as the thousandth of a worker.
        static bool warmed = false;
        if (!warmed) {
            warmed = true;
            static const char* const profiles[] = { "lifecycle", "leaks", "junit", "teamcity", "pointers", "selection" };
            for (size_t p = 0; p < 6; p++) for (uint64_t k = 1; k <= 3; k++) {
                Desc w; w.engine = d.engine; w.profile = profiles[p]; w.variant = d.variant; w.seed = mix64(0x5EEDED, p * 16 + k);
                generate(w.seed, w.profile, w, CPPUTEST_HAVE_EXCEPTIONS != 0);
                w.p["steer"] = 0; w.p.erase("bucket");
                Obs scratch; executeRun(w, scratch);
            }
            counters().c.clear();      // what the warm-up fired is not part of any run's record
        }
    }
    installBasicSeams(true); g_fileLayerActive = true;
    atexit(exitTimeStateOfTheRunner);
    installHeapSeam(); g_steerSeed = d.seed; g_steerCount = 0; g_steerMode = (int)d.pi("bucket", -1); g_steerOn = d.pi("steer", 0) != 0 || g_steerMode >= 0;
    static bool first = true;
    if (first) { first = false; for (int i = 0; i < N_TARGETS; i++) g_tgt[i] = initialValueOf(i); }
    MemoryLeakWarningPlugin* leak = new (leakPluginStorage()) MemoryLeakWarningPlugin(DEF_PLUGIN_MEM_LEAK);
    MemoryLeakDetector* det = MemoryLeakWarningPlugin::getGlobalDetector();
    MemoryLeakWarningPlugin::turnOnDefaultNotThreadSafeNewDeleteOverloads();

    RS = RunState(); RS.d = &d; RS.o = &o; RS.currentTest = -1;
    { sigset_t none; sigemptyset(&none); sigprocmask(SIG_SETMASK, &none, 0); }      // every run of a worker starts with no signal blocked, whatever the run before left
    RS.outsideShell = UtestShell::getCurrent();
    for (int i = 0; i < N_TARGETS; i++) g_tgt[i] = initialValueOf(i);
    memset(RS.slots, 0, sizeof RS.slots);
    static SetPointerPlugin* innerPlugin = new (::malloc(sizeof(SetPointerPlugin))) SetPointerPlugin("InnerSetPointerPlugin"); RS.innerSetPtr = innerPlugin;
    for (size_t g = 0; g < d.groups.size(); g++) if (d.groups[g].tag == "presets")
        for (size_t i = 0; i < d.groups[g].ops.size() && i < 8; i++) { const Op& po = d.groups[g].ops[i]; if (po.kind != K_PTR_SET) continue; UT_PTR_SET(g_tgt[po.a % N_TARGETS], (void*)&g_val[po.b % N_VALUES]); fired("pointer_set_outside_tests"); }

    simClock().reset((uint64_t)d.pi("clock_start"), d.pi("clock_step", 1));
    simIO().reset();
    simRand().mode = (int)d.pi("rand_mode"); simRand().calls = 0; simRand().srands = 0;
    if (simRand().mode) fired("rand_adversarial");
    SimJmp& J = simJmp(); o.depthAtStart = J.depth(); J.maxDepth = J.depth();

    PS.active = true;
    PS.pipeFd[0] = PS.pipeFd[1] = -1;
    if (d.pi("separate") && !d.pi("synthetic")) { if (pipe(PS.pipeFd) == 0) { fcntl(PS.pipeFd[0], F_SETFL, O_NONBLOCK); } else PS.pipeFd[0] = PS.pipeFd[1] = -1; }
    simIO().flushHook = childFlushHook;
    simIO().errnoNoise = (int)d.pi("errno_noise", 0); if (simIO().errnoNoise) fired("console_write_leaves_errno");
    PS.parentFlushPos = 0;
    PS.inChild = false; PS.synthetic = d.pi("synthetic") != 0; PS.nextFake = 0; PS.livePids.clear(); PS.script.clear(); PS.pos = 0; PS.eintrLeft = -1; PS.test = -1;

    det->increaseAllocationStage();        // everything the run leaves behind is released again after the run

    TestRegistry reg;
    TestRegistry* savedReg = TestRegistry::getCurrentRegistry();
    reg.setCurrentRegistry(&reg);

    Vec<UtestShell*> owned;
    for (size_t g = 0; g < d.groups.size(); g++) {
        if (d.groups[g].tag == "test") RS.testGroups.push_back((int)g);
        else if (d.groups[g].tag == "plugin") RS.pluginGroups.push_back((int)g);
    }
    for (size_t t = 0; t < RS.testGroups.size(); t++) {
        const Group& T = d.groups[(size_t)RS.testGroups[t]];
        UtestShell* s;
        if (T.arg(0)) s = new (::malloc(sizeof(SimIgnoredShell))) SimIgnoredShell(T.sarg(0), T.sarg(1), T.sarg(2), (size_t)T.arg(1), (int)t);
        else s = new (::malloc(sizeof(SimShell))) SimShell(T.sarg(0), T.sarg(1), T.sarg(2), (size_t)T.arg(1), (int)t);
        owned.push_back(s); RS.shells.push_back(s);
    }
    if (d.pi("via_api") && d.pi("early_ri")) { reg.setRunIgnored(); fired("run_ignored_set_before_registration"); }
    for (size_t t = owned.size(); t-- > 0;) reg.addTest(owned[t]);   // addTest prepends: registration order = description order

    Vec<SimPlugin*> plugins;
    for (size_t p = 0; p < RS.pluginGroups.size(); p++) {
        const Group& P = d.groups[(size_t)RS.pluginGroups[p]];
        SimPlugin* sp = new (::malloc(sizeof(SimPlugin))) SimPlugin(P.sarg(0), (int)p);
        if (!P.arg(0, 1)) sp->disable();
        plugins.push_back(sp);
        bool late = P.arg(2) != 0;
        if (!late) reg.installPlugin(sp);
        RS.pluginObjs.push_back(sp); RS.pluginInstalled.push_back(late ? 0 : (P.arg(1) ? 0 : 1));
    }
    if (d.pi("dup_plugin_names")) fired("two_plugins_under_one_name");
    RS.reg = &reg;
    reg.installPlugin(leak);
    {   // removals by name, at any chain position (the leak plugin sits on top of the scripted ones)
        Vec<size_t> rm; for (size_t p = 0; p < RS.pluginGroups.size(); p++) if (d.groups[(size_t)RS.pluginGroups[p]].arg(1)) rm.push_back(p);
        if (d.pi("remove_rev")) std::reverse(rm.begin(), rm.end());
        if (d.pi("remove_absent") & 1) { reg.removePluginByName("NeverInstalledPlugin"); fired("remove_plugin_name_that_is_not_installed"); }
        for (size_t i = 0; i < rm.size(); i++) { reg.removePluginByName(d.groups[(size_t)RS.pluginGroups[rm[i]]].sarg(0)); fired("plugin_removed"); }
        if (d.pi("remove_absent") & 2) { reg.removePluginByName(rm.empty() ? "NeverInstalledPlugin" : d.groups[(size_t)RS.pluginGroups[rm[0]]].sarg(0)); fired("remove_plugin_name_that_is_not_installed"); }   // a second removal of a removed name
        size_t nLate = 0; for (size_t p = 0; p < RS.pluginGroups.size(); p++) if (d.groups[(size_t)RS.pluginGroups[p]].arg(2)) nLate++;
        o.pluginCount = reg.countPlugins(); o.pluginCountExpected = (int)(RS.pluginGroups.size() - rm.size() - nLate) + 1;
        for (size_t i = 0; i < rm.size(); i++) if (reg.getPluginByName(d.groups[(size_t)RS.pluginGroups[rm[i]]].sarg(0)) != 0) o.removedStillFound++;
    }

    bool runnerThrew = false;
    Vec<Str> av; buildArgv(d, av);
    Vec<const char*> avp; for (size_t i = 0; i < av.size(); i++) avp.push_back(av[i].c_str());
    if (d.pi("via_api") && d.pi("output") == 0) {
        // the same configuration applied directly through the TestFilter / TestRegistry API, without the command-line parser
        fired("configured_through_registry_api");
        Config c = configOf(d);
        SetPointerPlugin pPlugin(DEF_PLUGIN_SET_POINTER); reg.installPlugin(&pPlugin);
        TestFilter* gfl = 0; TestFilter* nfl = 0; Vec<TestFilter*> made; Vec<int> madeMode;
        for (size_t g = 0; g < d.groups.size(); g++) {
            const Group& G = d.groups[g]; if (G.tag != "filter") continue;
            int form = (int)G.arg(3); bool strict = G.arg(1) != 0 || form >= 2, invert = G.arg(2) != 0 && form < 2;
            for (int part = 0; part < (form == 0 ? 1 : 2); part++) {
                bool isName = form == 0 ? G.arg(0) != 0 : part == 1;
                TestFilter* f = new (::malloc(sizeof(TestFilter))) TestFilter(form == 0 ? G.sarg(0) : G.sarg((size_t)part));
                if (!d.pi("asked_before")) { if (strict) f->strictMatching(); if (invert) f->invertMatching(); }
                made.push_back(f); madeMode.push_back((strict ? 1 : 0) | (invert ? 2 : 0));
                if (isName) nfl = f->add(nfl); else gfl = f->add(gfl);
            }
        }
        if (d.pi("asked_before")) {
            // The program asked every test whether it would run while the filter objects were still plain substring filters (one whole pass, then a
            // pass it gave up after a few tests), and only then switched the same objects to their strict / inverted form. The questions have no
            // effect: the run that follows selects by what the filters say when it runs.
            fired("filters_changed_in_place_after_earlier_questions");
            size_t extra = (size_t)d.pi("asked_before") - 1, k = 0;
            for (UtestShell* t = reg.getFirstTest(); t; t = t->getNext()) (void)t->shouldRun(gfl, nfl);
            for (UtestShell* t = reg.getFirstTest(); t && k < extra; t = t->getNext(), k++) (void)t->shouldRun(gfl, nfl);
            for (size_t i = 0; i < made.size(); i++) { if (madeMode[i] & 1) made[i]->strictMatching(); if (madeMode[i] & 2) made[i]->invertMatching(); }
        }
        reg.setGroupFilters(gfl); reg.setNameFilters(nfl);
        int lateRi = (int)d.pi("late_ri", 0);
        if (c.runIgnored && lateRi == 0 && !d.pi("early_ri")) reg.setRunIgnored();      // (early_ri: it was switched on before the tests were registered, once)
        UtestShell::setRethrowExceptions(false);
        RecConsole* out = new (::malloc(sizeof(RecConsole))) RecConsole(); RS.primaryOutput = out;
        if (c.verbose == 1) out->verbose(TestOutput::level_verbose); if (c.verbose == 2) out->verbose(TestOutput::level_veryVerbose); if (c.color) out->color();
        if (c.reverse) reg.reverseTests();
        size_t seedForShuffle = c.shuffle == 1 ? (size_t)c.shuffleSeed : (size_t)(unsigned)simTimeInMillis(); if (seedForShuffle == 0) seedForShuffle = 1;
#if CPPUTEST_HAVE_EXCEPTIONS
        if (d.pi("aborted_run")) {
            // An earlier run of this registry object that an exception cut short while a group was open: nothing of it is recorded, and nothing of it
            // may reach the runs that follow (each of them starts its first group and ends its last one).
            fired("earlier_run_of_the_registry_left_by_an_exception");
            struct Abort : public TestPlugin { Abort() : TestPlugin("AbortEarlierRun") {} void preTestAction(UtestShell&, TestResult&) CPPUTEST_OVERRIDE { throw 42; } } ab;
            reg.installPlugin(&ab);
            Obs scratch; RS.o = &scratch;
            { TestResult ptr(*out); try { reg.runAllTests(ptr); } catch (int) { PlatformSpecificRestoreJumpBuffer(); } }      // (the exception passed the frame that had taken a jump-buffer slot for the test: the slot is given back, as the framework's own handlers do)
            reg.removePluginByName("AbortEarlierRun");
            RS.o = &o; RS.currentTest = -1; RS.testsStartedSoFar = 0;
            simIO().reset(); simClock().reset((uint64_t)d.pi("clock_start"), d.pi("clock_step", 1));
            simRand().calls = 0; simRand().srands = 0;
        }
#endif
        int reps = c.repeat > 0 ? c.repeat : 1; size_t failedTests = 0, failedRuns = 0;
        for (int rp = 0; rp < reps; rp++) {
            if (c.runIgnored && lateRi > 0 && rp == lateRi) { reg.setRunIgnored(); fired("run_ignored_switched_on_between_repetitions"); }
            if (c.shuffle) reg.shuffleTests(seedForShuffle);
            out->printTestRun((size_t)rp + 1, (size_t)reps);
            TestResult tr(*out); reg.runAllTests(tr);
            failedTests += tr.getFailureCount(); if (tr.isFailure()) failedRuns++;
        }
        o.ret = (int)(failedTests ? failedTests : failedRuns);
        reg.removePluginByName(DEF_PLUGIN_SET_POINTER);
        out->~RecConsole(); ::free(out);
        for (size_t i = 0; i < made.size(); i++) { made[i]->~TestFilter(); ::free(made[i]); }
    } else {
        if (d.pi("prologue")) {
            // An earlier invocation of the runner on the same registry, with other options: filters that select nothing, no -e, maybe -v. Whatever it
            // set must not reach the run that follows (its own arguments say what it wants). Nothing of the prologue is recorded.
            fired("earlier_runner_invocation_on_the_same_registry");
            Obs scratch; RS.o = &scratch;
            Vec<const char*> pav; pav.push_back("prog"); pav.push_back("-sg"); pav.push_back("NoSuchGroup_zz"); pav.push_back("-sn"); pav.push_back("no_such_name_zz");
            if (d.pi("prologue") == 2) pav.push_back("-v");
            if (d.pi("prologue") == 3) pav.push_back("-s7");      // an order the earlier invocation chose must not cost the later one any test
            { SimRunner pro((int)pav.size(), pav.data(), &reg); (void)pro.runAllTestsMain(); }
            RS.o = &o; RS.primaryOutput = 0; RS.currentTest = -1; RS.testsStartedSoFar = 0;
            simIO().reset(); simClock().reset((uint64_t)d.pi("clock_start"), d.pi("clock_step", 1));
            PS.parentFlushPos = 0;
            simRand().calls = 0; simRand().srands = 0;
        }
        SimRunner runner((int)avp.size(), avp.data(), &reg);
#if CPPUTEST_HAVE_EXCEPTIONS
        try { o.ret = runner.runAllTestsMain(); }
        catch (...) { if (PS.inChild) throw;      /* a forked child in which something threw outside the test phases ends as it always did (std::terminate); it never carries on as the simulator */
            runnerThrew = true; o.ret = -12345; o.wrapperProblems += "an exception left the runner although its command line says that exceptions are not passed on (what an earlier invocation had set survived); "; }
#else
        o.ret = runner.runAllTestsMain();
#endif
    }
    if (o.ret == 0) o.finalReport = normalizeAddrs(leak->FinalReport(0));
    if (!runnerThrew) reg.removePluginByName(DEF_PLUGIN_MEM_LEAK);      // (after an exception unwound the runner, the chain still names plugins that lived on the runner's stack: it is dropped without being walked)
    reg.resetPlugins();
    savedReg->setCurrentRegistry(0);
    (void)savedReg;

    PS.active = false;
    for (size_t i = 0; i < PS.livePids.size(); i++) { __real_kill(PS.livePids[i], SIGKILL); __real_kill(PS.livePids[i], SIGCONT); int st; while (__real_waitpid(PS.livePids[i], &st, 0) < 0 && errno == EINTR) {} }
    PS.livePids.clear();
    drainChildPipe(o);
    if (PS.pipeFd[0] >= 0) { const Str& c = simIO().console; if (PS.parentFlushPos <= c.size()) o.terminal.append(c.data() + PS.parentFlushPos, c.size() - PS.parentFlushPos); }      // the process ends: the rest of the buffer goes out
    if (PS.pipeFd[0] >= 0) { close(PS.pipeFd[0]); close(PS.pipeFd[1]); PS.pipeFd[0] = PS.pipeFd[1] = -1; }
    o.depthAtEnd = J.depth(); o.maxDepth = J.maxDepth;
    o.ctxOkAtEnd = UtestShell::getCurrent() == RS.outsideShell;
    o.finalProbe = probePointers();
    UtestShell::setRethrowExceptions(false);
    UtestShell::restoreDefaultTestTerminator();      // (-f is a process-wide switch the runner never takes back)

    // release what scripted tests still hold, then whatever the framework abandoned on longjmp paths
    for (int i = 0; i < N_SLOTS; i++) if (RS.slots[i].p) {
        void* p = RS.slots[i].p; int fam = RS.slots[i].family; RS.slots[i].p = 0;
        if (fam == 0 || fam == 3) ::operator delete(p); else if (fam == 1 || fam == 4) ::operator delete[](p); else cpputest_free_location(p, "cleanup", 1);
    }
    det->deallocAllMemoryInCurrentAllocationStage();
    det->decreaseAllocationStage();
    leak->~MemoryLeakWarningPlugin();
    MemoryLeakWarningPlugin::destroyGlobalDetector();      // the next run gets a fresh detector
    // a drifted jump-buffer index (reported by the C01 depth oracle) must not poison the following runs of this worker
    for (long k = J.depth(); k > 0 && k < 64; k--) { J.realRestore(); J.restores++; }

    for (size_t i = 0; i < plugins.size(); i++) { plugins[i]->~SimPlugin(); ::free(plugins[i]); }
    for (size_t i = 0; i < owned.size(); i++) { owned[i]->~UtestShell(); ::free(owned[i]); }

    static const char* const firedNames[K_COUNT] = { 0, 0, 0, "fail_check_cpp", "fail_check_c_longjmp", "throw_std", "throw_foreign", 0, 0, 0, 0, 0, 0, 0, 0, 0, 0, 0, 0, 0, 0, 0, 0, 0, 0, 0, "plugin_installed_mid_run", "plugin_removed_mid_run", "second_leak_plugin_built_and_destroyed", "failures_added_without_leaving_the_phase", "nested_run_inside_a_test" };
    for (int k = 0; k < K_COUNT; k++) { if (firedNames[k] && g_fired[k]) fired(firedNames[k], g_fired[k]); g_fired[k] = 0; }
    SimIO& io = simIO();
    o.console = io.console; o.writesAfterClose = io.writesAfterClose; o.badHandle = io.badHandle;
    for (size_t i = 0; i < io.files.size(); i++) o.files.push_back(*io.files[i]);
    if (getenv("RUNSIM_DEBUG")) { for (size_t i = 0; i < o.fails.size(); i++) fprintf(stderr, "---- failure %zu: %s\n", i, o.fails[i].msg.c_str()); fprintf(stderr, "---- child console (%zu bytes)\n%s\n---- procLog:", o.childConsole.size(), o.childConsole.c_str()); for (size_t i = 0; i + 2 < o.procLog.size(); i += 3) fprintf(stderr, " (%lld,%lld,%lld)", (long long)o.procLog[i], (long long)o.procLog[i + 1], (long long)o.procLog[i + 2]); fprintf(stderr, "\n"); }
    if (d.pi("static_wrapper")) staticWrapperEpilogue(d, o);
    g_fileLayerActive = false;
}

}  // namespace rs
