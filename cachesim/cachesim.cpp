// cachesim - request/release/clear histories against the real SimpleStringInternalCache over a recording allocator (C18).
#include "../core/seams.h"
#include "../core/driver.h"
#include "CppUTest/SimpleStringInternalCache.h"
#include "CppUTest/TestMemoryAllocator.h"
#include "CppUTest/TestRegistry.h"
#include "CppUTest/TestOutput.h"
#include "CppUTest/TestResult.h"
#undef new
#undef malloc
#undef free
#include <algorithm>

namespace cs {
using namespace vf;

enum Kind { C_NONE = 0, C_ALLOC /* a slot, c size */, C_DEALLOC /* a slot, b size variant */, C_FOREIGN /* a kind (0 never handed out, 1 already released, 2 the null pointer), c size */,
            C_CLEAR_CACHE, C_CLEAR_ALL, C_HASFREE /* c size */, C_RECREATE /* destroy the cache and build a new one */,
            // profile 'global': SimpleString objects over a GlobalSimpleStringCache (the allocator adaptor and its installation)
            G_INSTALL, G_UNINSTALL /* a: 1 = strings made while caching are abandoned, not destroyed */, G_NEW /* a slot, c length, b content seed */,
            G_APPEND /* a slot, c length, b seed */, G_ASSIGN /* a dst, b src */, G_DROP /* a slot */, G_SUB /* a slot, b pos, c length */, G_FORMAT /* a slot, b src, c number */,
            C_COUNT };
static const char* const kNames[C_COUNT] = { "none", "alloc", "dealloc", "foreign_release", "clear_cache", "clear_all", "has_free", "recreate",
                                             "g_install", "g_uninstall", "g_new", "g_append", "g_assign", "g_drop", "g_sub", "g_format" };
static const char* kindName(int k) { return k >= 0 && k < C_COUNT ? kNames[k] : "none"; }
static int kindFromName(const char* s) { for (int i = 0; i < C_COUNT; i++) if (!strcmp(s, kNames[i])) return i; return C_NONE; }

static const size_t classSize[5] = { 32, 64, 96, 128, 256 };
static int classOf(size_t size) { for (int i = 0; i < 5; i++) if (size <= classSize[i]) return i; return 5; }   // 5 = not cached
enum { N_SLOTS = 64 };

struct Served { char* p; size_t size; bool live; };
// underlying allocator: real malloc (so ASan sees every misuse of it), dirty memory, exact bookkeeping of what is outstanding
class RecAlloc : public TestMemoryAllocator {
public:
    Vec<Served> served; size_t allocCalls, freeCalls, doubleFrees, foreignFrees; bool dirty;
    RecAlloc() : TestMemoryAllocator("RecAlloc", "ralloc", "rfree"), allocCalls(0), freeCalls(0), doubleFrees(0), foreignFrees(0), dirty(true) {}
    char* alloc_memory(size_t size, const char*, size_t) CPPUTEST_OVERRIDE {
        allocCalls++;
        char* p = (char*)::malloc(size ? size : 1);
        if (dirty) memset(p, 0xA5, size);
        Served s; s.p = p; s.size = size; s.live = true; served.push_back(s);
        return p;
    }
    void free_memory(char* memory, size_t, const char*, size_t) CPPUTEST_OVERRIDE {
        freeCalls++;
        for (size_t i = served.size(); i-- > 0;) if (served[i].p == memory) {
            if (!served[i].live) { doubleFrees++; return; }
            served[i].live = false; ::free(memory); return;
        }
        foreignFrees++;
    }
    size_t liveCount() const { size_t n = 0; for (size_t i = 0; i < served.size(); i++) if (served[i].live) n++; return n; }
    const Served* containing(const char* p, size_t n) const { for (size_t i = served.size(); i-- > 0;) if (served[i].live && p >= served[i].p && p + n <= served[i].p + served[i].size) return &served[i]; return 0; }
    void releaseAll() { for (size_t i = 0; i < served.size(); i++) if (served[i].live) { ::free(served[i].p); served[i].live = false; } served.clear(); }
};

struct Buf { bool live; char* p; size_t req; int cls; };

static Json sg(const char* k, const char* v) { Json j = Json::O(); j.set(k, Json::S(v)); return j; }

struct Engine : public vf::Engine {
    const char* name() const { return "cachesim"; }
    const char* variant() const { return "asan"; }
    KindNameFn kindName() const { return cs::kindName; }
    KindFromNameFn kindFromName() const { return cs::kindFromName; }
    void initProcess();

    static size_t pickSize(Rng& r) {
        unsigned w = (unsigned)r.below(10);
        static const size_t edges[] = { 0, 1, 31, 32, 33, 63, 64, 65, 95, 96, 97, 127, 128, 129, 255, 256, 257, 300, 1024 };
        if (w < 5) return edges[r.below(19)];
        if (w < 9) return (size_t)r.range(0, 260);
        return (size_t)r.range(257, 1024);
    }
    void generateGlobal(uint64_t seed, Desc& d) {
        Rng w(mix64(seed, 22));
        Group H; H.tag = "hist";
        int nOps = (int)w.small(1, 120); int nSlots = (int)w.range(1, w.chance(1, 4) ? 24 : 6);
        d.p["dirty"] = w.chance(3, 4);
        d.p["via_adaptor"] = 0;
        d.p["sink_output"] = w.chance(1, 2);   // the history runs inside a test whose output appends to a SimpleString made before the cache was installed
        bool startInstalled = w.chance(2, 3);
        if (startInstalled) { Op o; o.kind = G_INSTALL; H.ops.push_back(o); }
        for (int i = 0; i < nOps; i++) {
            Op o; unsigned x = (unsigned)w.below(100);
            size_t sz = pickSize(w); int64_t len = sz ? (int64_t)sz - 1 : 0;
            if (x < 30) { o.kind = G_NEW; o.a = (int64_t)w.below((uint64_t)nSlots); o.c = len; o.b = (int64_t)w.below(1000); }
            else if (x < 42) { o.kind = G_APPEND; o.a = (int64_t)w.below((uint64_t)nSlots); o.c = w.chance(1, 2) ? (int64_t)w.below(40) : len; o.b = (int64_t)w.below(1000); }
            else if (x < 52) { o.kind = G_ASSIGN; o.a = (int64_t)w.below((uint64_t)nSlots); o.b = (int64_t)w.below((uint64_t)nSlots); }
            else if (x < 78) { o.kind = G_DROP; o.a = (int64_t)w.below((uint64_t)nSlots); }
            else if (x < 84) { o.kind = G_SUB; o.a = (int64_t)w.below((uint64_t)nSlots); o.b = (int64_t)w.below(300); o.c = (int64_t)w.below(300); }
            else if (x < 90) { o.kind = G_FORMAT; o.a = (int64_t)w.below((uint64_t)nSlots); o.b = (int64_t)w.below((uint64_t)nSlots); o.c = (int64_t)w.below(100000); }
            else if (x < 95) o.kind = G_INSTALL;
            else { o.kind = G_UNINSTALL; o.a = w.chance(1, 3); }
            H.ops.push_back(o);
        }
        d.groups.push_back(H);
    }
    void generate(uint64_t seed, const Str& profile, Desc& d) {
        if (profile == "global") { generateGlobal(seed, d); return; }
        Rng w(mix64(seed, 21));
        d.p["via_adaptor"] = w.chance(1, 3);
        Group H; H.tag = "hist";
        int nOps = (int)w.small(1, 160); int nSlots = (int)w.range(1, w.chance(1, 4) ? 40 : 8);
        bool oneClass = w.chance(1, 4); size_t fixedSize = pickSize(w);
        d.p["dirty"] = w.chance(3, 4);
        for (int i = 0; i < nOps; i++) {
            Op o; unsigned x = (unsigned)w.below(100);
            if (x < 42) { o.kind = C_ALLOC; o.a = (int64_t)w.below((uint64_t)nSlots); o.c = (int64_t)(oneClass ? fixedSize : pickSize(w)); }
            else if (x < 80) { o.kind = C_DEALLOC; o.a = (int64_t)w.below((uint64_t)nSlots); o.b = (int64_t)w.below(3); }
            else if (x < 86) { o.kind = C_FOREIGN; o.a = (int64_t)w.below(2); if (w.chance(1, 6)) o.a = 2; o.c = (int64_t)(w.chance(1, 2) && oneClass ? fixedSize : pickSize(w)); o.b = (int64_t)w.below((uint64_t)nSlots); }
            else if (x < 91) o.kind = C_CLEAR_CACHE;
            else if (x < 94) o.kind = C_CLEAR_ALL;
            else if (x < 98) { o.kind = C_HASFREE; o.c = (int64_t)pickSize(w); }
            else o.kind = C_RECREATE;
            H.ops.push_back(o);
        }
        d.groups.push_back(H);
    }

    // ---------------------------------------------------------------- profile 'global'
    struct GStr { SimpleString* s; Str model; bool cacheOrigin; };
    static Str textOf(int64_t seed, int64_t len) { Str t; t.reserve((size_t)len); for (int64_t i = 0; i < len; i++) t += (char)('a' + (int)((i * 7 + seed + (i >> 4)) % 26)); return t; }
    static size_t countWarnings() { size_t warn = 0, pos = 0; while ((pos = simIO().console.find("WARNING: Attempting to deallocate", pos)) != Str::npos) { warn++; pos += 10; } return warn; }
    enum { SINK = N_SLOTS - 1 };
    struct GCtx {
        const Desc* d; RunResult* r; Hash h; RecAlloc rec; GStr slots[N_SLOTS]; GlobalSimpleStringCache* g; void* gmem;
        size_t orphans, foreignThisLifetime, warningsBefore; Str lastForeignText; bool useSink;
        GCtx() : d(0), r(0), g(0), gmem(0), orphans(0), foreignThisLifetime(0), warningsBefore(0), useSink(false) { for (int i = 0; i < N_SLOTS; i++) slots[i].s = 0; }
        void releaseOld(GStr& S) { if (S.s && g && !S.cacheOrigin) { orphans++; foreignThisLifetime++; if (foreignThisLifetime == 1) lastForeignText = S.model; fired("static_string_released_while_caching"); } }
    };
    static GCtx*& gctx() { static GCtx* c = 0; return c; }
    // test output that keeps what is printed in a SimpleString (as StringBufferTestOutput does): a print while the cache is installed
    // releases the string's previous buffer through the cache - also from inside the cache's own warning
    class SinkOutput : public TestOutput {
    public:
        int depth;
        SinkOutput() : depth(0) {}
        void printBuffer(const char* t) CPPUTEST_OVERRIDE {
            GCtx* c = gctx(); simIO().console += t;
            if (!c || !c->slots[SINK].s) return;
            if (++depth > 50) { --depth; return; }          // a warning that re-enters itself without end is cut here and reported by the count
            GStr& S = c->slots[SINK];
            c->releaseOld(S);
            *S.s += t; S.model += t; S.cacheOrigin = c->g != 0;
            if (c->g) probe("print_into_string_while_caching");
            --depth;
        }
        void flush() CPPUTEST_OVERRIDE {}
    };
    class BodyFunction : public ExecFunction { public: Engine* e; void exec() CPPUTEST_OVERRIDE { e->globalBody(*gctx()); } };

    void executeGlobal(const Desc& d, RunResult& r) {
        simIO().reset();
        GCtx* c = new (::malloc(sizeof(GCtx))) GCtx(); gctx() = c;
        c->d = &d; c->r = &r; c->rec.dirty = d.pi("dirty", 1) != 0; c->useSink = d.pi("sink_output", 0) != 0;
        TestMemoryAllocator* before = SimpleString::getStringAllocator();
        SimpleString::setStringAllocator(&c->rec);
        c->gmem = ::malloc(sizeof(GlobalSimpleStringCache));
        if (!d.groups.empty()) {
            if (c->useSink) {
                c->slots[SINK].s = new (::malloc(sizeof(SimpleString))) SimpleString(""); c->slots[SINK].model = ""; c->slots[SINK].cacheOrigin = false;
                {
                    SinkOutput out; TestResult res(out); TestRegistry reg; ExecFunctionTestShell shell; BodyFunction fn; fn.e = this; shell.testFunction_ = &fn;
                    reg.addTest(&shell);
                    reg.runAllTests(res);
                    shell.testFunction_ = 0;
                    if (res.getFailureCount() && r.viols.empty()) r.fail("C18", "test_failed", sg("what", "the test that ran the history failed"), simIO().console.substr(0, 300).c_str());
                }
            } else globalBody(*c);
        }
        for (int i = 0; i < N_SLOTS; i++) if (c->slots[i].s) { c->slots[i].s->~SimpleString(); ::free((void*)c->slots[i].s); c->slots[i].s = 0; }
        if (r.viols.empty() && c->rec.liveCount() != c->orphans) r.fail("C18", "returned_once", sg("what", "string buffers outstanding after every string was destroyed"), sfmt("end: %zu outstanding, %zu refused by the cache", c->rec.liveCount(), c->orphans));
        if (r.viols.empty() && (c->rec.doubleFrees || c->rec.foreignFrees)) r.fail("C18", "returned_once", sg("what", "memory returned twice at the end"), "");
        SimpleString::setStringAllocator(before);
        ::free(c->gmem);
        c->rec.releaseAll();
        for (size_t i = 0; i < r.viols.size(); i++) c->h.str(r.viols[i].cls().c_str());
        c->h.u64(c->rec.allocCalls); c->h.u64(c->rec.freeCalls);
        r.hash = c->h.h;
        gctx() = 0; c->~GCtx(); ::free(c);
    }

    void globalBody(GCtx& C) {
        const Desc& d = *C.d; RunResult& r = *C.r; Hash& h = C.h; RecAlloc& rec = C.rec; GStr* slots = C.slots; GlobalSimpleStringCache*& g = C.g; void* gmem = C.gmem;
        size_t& orphans = C.orphans; size_t& foreignThisLifetime = C.foreignThisLifetime; size_t& warningsBefore = C.warningsBefore; Str& lastForeignText = C.lastForeignText;
        const Group& H = d.groups[0];
        #define RELEASE_OLD(S) C.releaseOld(S)
        for (size_t oi = 0; oi < H.ops.size() && r.viols.empty(); oi++) {
            const Op& o = H.ops[oi]; const char* on = cs::kindName(o.kind);
            h.ev(on, (uint64_t)o.a, (uint64_t)o.b, (uint64_t)o.c);
            GStr& S = slots[(size_t)o.a % N_SLOTS];
            switch (o.kind) {
            case G_INSTALL: {
                if (g) break;
                g = new (gmem) GlobalSimpleStringCache();
                TestMemoryAllocator* a = SimpleString::getStringAllocator();
                if (a != g->getAllocator() || a == &rec) r.fail("C18", "installation", sg("what", "the cache allocator is not the string allocator after installation"), sfmt("op %zu", oi));
                else if (strcmp(a->alloc_name(), "ralloc") || strcmp(a->free_name(), "rfree") || a->actualAllocator() != &rec)
                    r.fail("C18", "adaptor_identity", sg("what", "adaptor does not present the underlying allocator's names / actual allocator"), sfmt("op %zu", oi));
                foreignThisLifetime = 0; warningsBefore = countWarnings();
                probe("global_install");
                break;
            }
            case G_UNINSTALL: {
                if (!g) break;
                size_t abandoned = 0;
                for (int i = 0; i < N_SLOTS; i++) if (slots[i].s && slots[i].cacheOrigin) {
                    if (o.a) { ::free((void*)slots[i].s); abandoned++; }      // the object is forgotten with its buffer still marked used in the cache
                    else { slots[i].s->~SimpleString(); ::free((void*)slots[i].s); }
                    slots[i].s = 0;
                }
                if (abandoned) fired("strings_abandoned_at_uninstall", abandoned);
                g->~GlobalSimpleStringCache(); g = 0;
                if (C.useSink && !slots[SINK].s) { slots[SINK].s = new (::malloc(sizeof(SimpleString))) SimpleString(""); slots[SINK].model = ""; slots[SINK].cacheOrigin = false; }
                if (SimpleString::getStringAllocator() != &rec) r.fail("C18", "installation", sg("what", "the previous string allocator is not restored"), sfmt("op %zu", oi));
                size_t outside = 0; for (int i = 0; i < N_SLOTS; i++) if (slots[i].s) outside++;
                if (rec.liveCount() != outside + orphans)
                    r.fail("C18", "clear_all", sg("what", rec.liveCount() > outside + orphans ? "memory kept after the global cache was destroyed" : "memory of strings outside the cache was released"),
                           sfmt("op %zu: %zu allocations outstanding, %zu strings made outside the cache, %zu buffers the cache refused", oi, rec.liveCount(), outside, orphans));
                size_t warn = countWarnings() - warningsBefore, want = foreignThisLifetime ? 1 : 0;
                if (warn != want) r.fail("C18", "warning_once", sg("what", warn > want ? "warned more than once" : "no warning"), sfmt("op %zu: %zu warnings for %zu unknown releases", oi, warn, foreignThisLifetime));
                else if (want && lastForeignText.size() <= 200 && simIO().console.find(lastForeignText.c_str()) == Str::npos) probe("warning_without_the_whole_string");      // how much of the foreign buffer a warning shows is its own business
                probe("global_uninstall");
                break;
            }
            case G_NEW: {
                if (S.s) break;
                Str t = textOf(o.b, o.c);
                S.s = new (::malloc(sizeof(SimpleString))) SimpleString(t.c_str()); S.model = t; S.cacheOrigin = g != 0;
                r.nontrivial = true;
                break;
            }
            case G_APPEND: {
                if (!S.s) break;
                Str t = textOf(o.b, o.c);
                RELEASE_OLD(S);
                *S.s += t.c_str(); S.model += t; S.cacheOrigin = g != 0;
                break;
            }
            case G_ASSIGN: {
                GStr& F = slots[(size_t)o.b % N_SLOTS];
                if (!S.s || !F.s || &S == &F) break;
                RELEASE_OLD(S);
                *S.s = *F.s; S.model = F.model; S.cacheOrigin = g != 0;
                break;
            }
            case G_DROP: {
                if (!S.s) break;
                RELEASE_OLD(S);
                S.s->~SimpleString(); ::free((void*)S.s); S.s = 0;
                break;
            }
            case G_SUB: {
                if (!S.s) break;
                size_t pos = (size_t)o.b, n = (size_t)o.c;
                Str m; if (pos < S.model.size()) m = S.model.substr(pos, n); 
                RELEASE_OLD(S);
                *S.s = S.s->subString(pos, n); S.model = m; S.cacheOrigin = g != 0;
                break;
            }
            case G_FORMAT: {
                GStr& F = slots[(size_t)o.b % N_SLOTS];
                if (!S.s || !F.s || &S == &F) break;
                RELEASE_OLD(S);
                *S.s = StringFromFormat("%s-%d-%s", F.s->asCharString(), (int)o.c, F.s->asCharString());
                char num[32]; snprintf(num, sizeof num, "-%d-", (int)o.c);
                S.model = F.model + num + F.model; S.cacheOrigin = g != 0;
                break;
            }
            default: break;
            }
            if (rec.doubleFrees) { r.fail("C18", "returned_once", sg("what", "memory returned to the allocator twice"), sfmt("op %zu (%s)", oi, on)); rec.doubleFrees = 0; }
            if (rec.foreignFrees) { r.fail("C18", "returned_once", sg("what", "memory returned that the allocator never served"), sfmt("op %zu (%s)", oi, on)); rec.foreignFrees = 0; }
            // every string still reads as the model says, lies inside memory the allocator served, and overlaps no other string
            for (int i = 0; i < N_SLOTS && r.viols.empty(); i++) if (slots[i].s) {
                const char* p = slots[i].s->asCharString(); size_t n = slots[i].model.size() + 1;
                if (!rec.containing(p, n)) { r.fail("C18", "capacity", sg("what", "string buffer not inside memory obtained from the allocator"), sfmt("after op %zu (%s): slot %d, %zu bytes", oi, on, i, n)); break; }
                if (memcmp(p, slots[i].model.c_str(), n) != 0) { r.fail("C18", "aliasing", sg("what", "content of a buffer in use changed"), sfmt("after op %zu (%s): slot %d", oi, on, i)); break; }
                for (int k = i + 1; k < N_SLOTS; k++) if (slots[k].s) {
                    const char* q = slots[k].s->asCharString(); size_t m = slots[k].model.size() + 1;
                    if (p < q + m && q < p + n) { r.fail("C18", "aliasing", sg("what", "buffer overlaps a buffer still in use"), sfmt("after op %zu (%s): slots %d and %d", oi, on, i, k)); break; }
                }
            }
            h.u64(rec.liveCount());
        }
        #undef RELEASE_OLD
        // end: strings made while caching are destroyed, the global cache goes away, then everything else
        if (g) {
            for (int i = 0; i < N_SLOTS; i++) if (slots[i].s && slots[i].cacheOrigin) { slots[i].s->~SimpleString(); ::free((void*)slots[i].s); slots[i].s = 0; }
            g->~GlobalSimpleStringCache(); g = 0;
            if (C.useSink && !slots[SINK].s) { slots[SINK].s = new (::malloc(sizeof(SimpleString))) SimpleString(""); slots[SINK].model = ""; slots[SINK].cacheOrigin = false; }
            size_t outside = 0; for (int i = 0; i < N_SLOTS; i++) if (slots[i].s) outside++;
            if (r.viols.empty() && rec.liveCount() != outside + orphans) r.fail("C18", "clear_all", sg("what", "memory kept after the global cache was destroyed"), sfmt("end: %zu allocations outstanding, expected %zu", rec.liveCount(), outside + orphans));
            size_t warn = countWarnings() - warningsBefore, want = foreignThisLifetime ? 1 : 0;
            if (r.viols.empty() && warn != want) r.fail("C18", "warning_once", sg("what", warn > want ? "warned more than once" : "no warning"), sfmt("end: %zu warnings for %zu unknown releases", warn, foreignThisLifetime));
            if (r.viols.empty() && SimpleString::getStringAllocator() != &rec) r.fail("C18", "installation", sg("what", "the previous string allocator is not restored"), "end");
        }
    }

    void execute(const Desc& d, RunResult& r) {
        if (d.profile == "global") { executeGlobal(d, r); return; }
        Hash h;
        simIO().reset();
        RecAlloc rec; rec.dirty = d.pi("dirty", 1) != 0;
        SimpleStringInternalCache* cache = new (::malloc(sizeof(SimpleStringInternalCache))) SimpleStringInternalCache();
        cache->setAllocator(&rec);
        // a third of the histories reach the cache through the allocator adaptor SimpleString uses
        SimpleStringCacheAllocator* adaptor = 0;
        if (d.pi("via_adaptor", 0)) {
            adaptor = new (::malloc(sizeof(SimpleStringCacheAllocator))) SimpleStringCacheAllocator(*cache, &rec);
            if (strcmp(adaptor->alloc_name(), "ralloc") || strcmp(adaptor->free_name(), "rfree") || adaptor->actualAllocator() != &rec || adaptor->originalAllocator() != &rec)
                r.fail("C18", "adaptor_identity", sg("what", "adaptor does not present the underlying allocator's names / actual allocator"), "");
            fired("via_adaptor");
        }
        Buf slots[N_SLOTS]; for (int i = 0; i < N_SLOTS; i++) slots[i].live = false;
        Vec<char*> pool[5];            // released cached buffers per size class (what the cache may hand out again)
        Vec<std::pair<char*, int> > everReleased;
        char foreignBuf[8][40]; for (int i = 0; i < 8; i++) snprintf(foreignBuf[i], sizeof foreignBuf[i], "foreign-%d", i);
        snprintf(foreignBuf[3], sizeof foreignBuf[3], "100%%d of 7%%x"); snprintf(foreignBuf[5], sizeof foreignBuf[5], "%%s%%s%%s%%s%%n");      // what an unknown buffer holds is text, not a format
        size_t foreignReleases = 0; size_t warningsBefore = 0;
        if (d.groups.empty()) { cache->~SimpleStringInternalCache(); ::free(cache); r.hash = h.h; return; }
        const Group& H = d.groups[0];
        for (size_t oi = 0; oi < H.ops.size() && r.viols.empty(); oi++) {
            const Op& o = H.ops[oi]; const char* on = cs::kindName(o.kind);
            h.ev(on, (uint64_t)o.a, (uint64_t)o.b, (uint64_t)o.c);
            Buf& S = slots[(size_t)o.a % N_SLOTS];
            switch (o.kind) {
            case C_ALLOC: {
                if (S.live) break;
                size_t size = (size_t)o.c; int cls = classOf(size);
                size_t servedBefore = rec.allocCalls;
                char* p = adaptor ? adaptor->alloc_memory(size, "cachesim", oi) : cache->alloc(size);
                if (!p) { r.fail("C18", "null_buffer", sfmt("op %zu: alloc(%zu) returned NULL", oi, size)); break; }
                const Served* sv = rec.containing(p, size);
                if (!sv) { r.fail("C18", "capacity", sg("what", "buffer not inside memory obtained from the allocator"), sfmt("op %zu: alloc(%zu)", oi, size)); break; }
                if (cls < 5 && sv->size < classSize[cls]) r.fail("C18", "capacity", sg("what", "smaller than its class"), sfmt("op %zu: alloc(%zu) sits in an allocation of %zu bytes, class size %zu", oi, size, sv->size, classSize[cls]));
                for (int i = 0; i < N_SLOTS; i++) if (slots[i].live) {
                    size_t cap = slots[i].cls < 5 ? classSize[slots[i].cls] : slots[i].req;
                    if (p < slots[i].p + (cap ? cap : 1) && slots[i].p < p + (size ? size : 1)) { r.fail("C18", "aliasing", sg("what", "buffer overlaps a buffer still in use"), sfmt("op %zu: alloc(%zu) returned memory of live slot %d (requested %zu)", oi, size, i, slots[i].req)); break; }
                }
                // reuse only inside its own class
                bool fromPool = false;
                for (int c = 0; c < 5 && !fromPool; c++) for (size_t k = 0; k < pool[c].size(); k++) if (pool[c][k] == p) {
                    fromPool = true;
                    if (c != cls) r.fail("C18", "class_reuse", sg("what", "released buffer reused for another size class"), sfmt("op %zu: alloc(%zu) (class %d) got a buffer released in class %d", oi, size, cls, c));
                    pool[c].erase(pool[c].begin() + (long)k);
                    break;
                }
                if (!fromPool && rec.allocCalls == servedBefore) r.fail("C18", "aliasing", sg("what", "buffer neither new nor released before"), sfmt("op %zu: alloc(%zu)", oi, size));
                if (cls < 5 && !fromPool && !pool[cls].empty()) probe("new_block_although_pool_not_empty");
                if (fromPool) probe("reused_from_pool"); else probe("fresh_block");
                S.live = true; S.p = p; S.req = size; S.cls = cls;
                size_t n = size; if (n > 0) { snprintf(p, n, "b%d", (int)((size_t)o.a % N_SLOTS)); }
                r.nontrivial = true;
                break;
            }
            case C_DEALLOC: {
                if (!S.live) break;
                size_t size = S.req;
                if (S.cls < 5 && o.b) {          // a different size of the same class
                    size_t lo = S.cls == 0 ? 0 : classSize[S.cls - 1] + 1, hi = classSize[S.cls];
                    size = o.b == 1 ? hi : lo; fired("release_with_other_size_of_class");
                }
                else if (S.cls == 5 && o.b) { size = o.b == 1 ? S.req + 4097 : 257; fired("release_of_big_buffer_with_other_big_size"); }      // not cached is a class too: the buffer is found by its address
                // position in the used list: for the probes
                if (adaptor) adaptor->free_memory(S.p, size, "cachesim", oi); else cache->dealloc(S.p, size);
                if (S.cls < 5) { pool[S.cls].push_back(S.p); everReleased.push_back(std::make_pair(S.p, S.cls)); }
                else if (rec.containing(S.p, 1)) r.fail("C18", "returned_to_allocator", sg("what", "non-cached buffer not returned on release"), sfmt("op %zu: size %zu", oi, S.req));
                S.live = false;
                break;
            }
            case C_FOREIGN: {
                char* p = 0; size_t size = (size_t)o.c; int cls = classOf(size);
                if (o.a == 0) p = foreignBuf[oi % 8];
                else if (o.a == 2) p = 0;      // the null pointer is a buffer the cache never handed out
                else { if (cls >= 5 || pool[cls].empty()) break; p = pool[cls][(size_t)o.b % pool[cls].size()]; p[0] = 's'; p[1] = 0; }   // second release of a buffer that sits in the free pool
                size_t live0 = rec.liveCount();
                if (adaptor) adaptor->free_memory(p, size, "cachesim", oi); else cache->dealloc(p, size);
                foreignReleases++; fired(o.a == 0 ? "foreign_release" : (o.a == 2 ? "null_release" : "double_release"));
                if (rec.liveCount() != live0 || rec.foreignFrees || rec.doubleFrees) r.fail("C18", "foreign_release", sg("what", "a release of unknown memory reached the allocator"), sfmt("op %zu", oi));
                // nothing may have changed: every live buffer and every pooled buffer is still known (checked by later operations and at the end)
                break;
            }
            case C_CLEAR_CACHE: {
                size_t liveBufs = 0; for (int i = 0; i < N_SLOTS; i++) if (slots[i].live) liveBufs++;
                cache->clearCache();
                for (int c = 0; c < 5; c++) pool[c].clear();
                if (rec.liveCount() != 2 * liveBufs) r.fail("C18", "clear_cache", sg("what", rec.liveCount() > 2 * liveBufs ? "unused buffers kept" : "buffers in use were released"), sfmt("op %zu: after clearCache %zu allocations outstanding, %zu buffers in use (2 allocations each)", oi, rec.liveCount(), liveBufs));
                probe("clear_cache");
                break;
            }
            case C_CLEAR_ALL: {
                cache->clearAllIncludingCurrentlyUsedMemory();
                for (int c = 0; c < 5; c++) pool[c].clear();
                for (int i = 0; i < N_SLOTS; i++) slots[i].live = false;
                if (rec.liveCount() != 0) r.fail("C18", "clear_all", sg("what", "memory kept after clear-all"), sfmt("op %zu: %zu allocations outstanding", oi, rec.liveCount()));
                probe("clear_all");
                break;
            }
            case C_HASFREE: {
                size_t size = (size_t)o.c; int cls = classOf(size); if (cls >= 5) break;
                bool got = cache->hasFreeBlocksOfSize(size);
                if (got != !pool[cls].empty()) r.fail("C18", "free_pool", sg("what", got ? "claims free buffers it does not have" : "lost released buffers"), sfmt("op %zu: hasFreeBlocksOfSize(%zu) = %d, model pool holds %zu", oi, size, (int)got, pool[cls].size()));
                break;
            }
            case C_RECREATE: {
                cache->clearAllIncludingCurrentlyUsedMemory();
                if (rec.liveCount() != 0) r.fail("C18", "clear_all", sg("what", "memory kept at destruction"), sfmt("op %zu: %zu allocations outstanding", oi, rec.liveCount()));
                if (adaptor) adaptor->~SimpleStringCacheAllocator();
                cache->~SimpleStringInternalCache();
                size_t warn = 0, pos = 0; while ((pos = simIO().console.find("WARNING: Attempting to deallocate", pos)) != Str::npos) { warn++; pos += 10; }
                size_t wantWarn = foreignReleases ? 1 : 0;
                if (warn - warningsBefore != wantWarn) r.fail("C18", "warning_once", sg("what", warn - warningsBefore > wantWarn ? "warned more than once" : "no warning"), sfmt("op %zu: %zu warnings for %zu unknown releases", oi, warn - warningsBefore, foreignReleases));
                warningsBefore = warn; foreignReleases = 0;
                for (int c = 0; c < 5; c++) pool[c].clear();
                for (int i = 0; i < N_SLOTS; i++) slots[i].live = false;
                new (cache) SimpleStringInternalCache(); cache->setAllocator(&rec);
                if (adaptor) new (adaptor) SimpleStringCacheAllocator(*cache, &rec);
                break;
            }
            default: break;
            }
            if (rec.doubleFrees) { r.fail("C18", "returned_once", sg("what", "memory returned to the allocator twice"), sfmt("op %zu (%s)", oi, on)); rec.doubleFrees = 0; }
            if (rec.foreignFrees) { r.fail("C18", "returned_once", sg("what", "memory returned that the allocator never served"), sfmt("op %zu (%s)", oi, on)); rec.foreignFrees = 0; }
            // contents of live buffers survive everything the cache does
            for (int i = 0; i < N_SLOTS; i++) if (slots[i].live && slots[i].req > 1) {
                char want[16]; snprintf(want, sizeof want, "b%d", i);
                if (strncmp(slots[i].p, want, slots[i].req - 1) != 0 && strlen(want) < slots[i].req) { r.fail("C18", "aliasing", sg("what", "content of a buffer in use changed"), sfmt("after op %zu (%s): slot %d", oi, on, i)); slots[i].live = false; }
            }
            h.u64(rec.liveCount());
        }
        // end of history: clear everything and destroy; every allocation must have come back exactly once
        cache->clearAllIncludingCurrentlyUsedMemory();
        if (r.viols.empty() && rec.liveCount() != 0) r.fail("C18", "clear_all", sg("what", "memory kept at the end"), sfmt("%zu allocations outstanding after the final clear-all", rec.liveCount()));
        if (r.viols.empty() && (rec.doubleFrees || rec.foreignFrees)) r.fail("C18", "returned_once", sg("what", "memory returned twice at the end"), "");
        if (adaptor) { adaptor->~SimpleStringCacheAllocator(); ::free(adaptor); }
        cache->~SimpleStringInternalCache();
        {
            size_t warn = 0, pos = 0; while ((pos = simIO().console.find("WARNING: Attempting to deallocate", pos)) != Str::npos) { warn++; pos += 10; }
            size_t wantWarn = foreignReleases ? 1 : 0;
            if (r.viols.empty() && warn - warningsBefore != wantWarn) r.fail("C18", "warning_once", sg("what", warn - warningsBefore > wantWarn ? "warned more than once" : "no warning"), sfmt("end: %zu warnings for %zu unknown releases", warn - warningsBefore, foreignReleases));
        }
        ::free(cache);
        rec.releaseAll();
        for (size_t i = 0; i < r.viols.size(); i++) h.str(r.viols[i].cls().c_str());
        h.u64(rec.allocCalls); h.u64(rec.freeCalls);
        r.hash = h.h;
    }
};
}  // namespace cs

namespace cs {
// function-local statics of the framework (null plugin, outside-test shell, ...) are created now, with the process's own allocator
struct NoFunction : public ExecFunction { void exec() CPPUTEST_OVERRIDE { UtestShell::getCurrent()->print("warm", "f", 1); } };
void Engine::initProcess() {
    installBasicSeams();
    SinkOutput out; TestResult res(out); TestRegistry reg; ExecFunctionTestShell shell; NoFunction fn; shell.testFunction_ = &fn;
    reg.addTest(&shell); reg.runAllTests(res); shell.testFunction_ = 0;
    UtestShell::getCurrent()->print("warm", "f", 1);
    simIO().reset();
}
}
int main(int argc, char** argv) { cs::Engine e; return vf::driverMain(argc, argv, e); }
