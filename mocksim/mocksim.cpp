// mocksim - mocked scenarios (expectation sets x interleaved caller tasks x injected deviations) through the real mock
// framework inside real tests with the real MockSupportPlugin. Profiles: verdict (C08), cfront (C19: the same scenario
// through the C and the C++ front end, compared).
#include "../core/seams.h"
#include "../core/driver.h"
#include "CppUTest/TestRegistry.h"
#include "CppUTest/TestOutput.h"
#include "CppUTest/TestResult.h"
#include "CppUTest/TestFailure.h"
#include "CppUTestExt/MockSupport.h"
#include "CppUTestExt/MockSupport_c.h"
#include "CppUTestExt/MockSupportPlugin.h"
#undef new
#undef malloc
#undef free
#include <algorithm>
#include <limits.h>

namespace ms {
using namespace vf;

enum Kind { M_NONE = 0,
    M_EXPECT,      // a function, b count (0 = expectNoCall), c flags (1 ignoreOtherParameters), d object id (0 none); s values; s2 return value
    M_CALL,        // a function, d object id, phase = caller task, c extra getter (cfront profile); s values; s2 deviation ("" none, "drop", "dup", "value:k", "rename:k", "borrow:k:name", "omit:k", "object", "noobject", "extra", "swap")
    M_DATA,        // data store: a type, s name, s2 value (C19)
    M_COUNT };
static const char* const kNames[M_COUNT] = { "none", "expect", "call", "data" };
static const char* kindName(int k) { return k >= 0 && k < M_COUNT ? kNames[k] : "none"; }
static int kindFromName(const char* s) { for (int i = 0; i < M_COUNT; i++) if (!strcmp(s, kNames[i])) return i; return M_NONE; }

enum Ty { T_NONE = 0, T_BOOL, T_INT, T_UINT, T_LONG, T_ULONG, T_LL, T_ULL, T_DOUBLE, T_STRING, T_PTR, T_CPTR, T_FPTR, T_MEM, T_OBJ };
static const char* const tyNames[] = { "none", "bool", "int", "uint", "long", "ulong", "ll", "ull", "double", "string", "ptr", "cptr", "fptr", "mem", "obj" };
struct Param { const char* name; Ty ty; };
struct Fn { const char* name; int np; Param p[3]; Ty ret; bool out; Ty outTy; };
static const Fn FNS[9] = {
    { "fn0", 0, { { 0, T_NONE }, { 0, T_NONE }, { 0, T_NONE } }, T_NONE, false, T_NONE },
    { "fn1", 1, { { "a", T_INT }, { 0, T_NONE }, { 0, T_NONE } }, T_INT, true, T_INT },
    { "fn2", 2, { { "a", T_INT }, { "s", T_STRING }, { 0, T_NONE } }, T_STRING, false, T_NONE },
    { "fn3", 3, { { "d", T_DOUBLE }, { "u", T_UINT }, { "b", T_BOOL } }, T_DOUBLE, false, T_NONE },
    { "fn4", 2, { { "p", T_PTR }, { "l", T_LONG }, { 0, T_NONE } }, T_PTR, false, T_NONE },
    { "fn5", 2, { { "m", T_MEM }, { "ll", T_LL }, { 0, T_NONE } }, T_LL, false, T_NONE },
    { "fn6", 2, { { "t", T_OBJ }, { "ul", T_ULONG }, { 0, T_NONE } }, T_ULONG, true, T_OBJ },
    { "fn7", 3, { { "cp", T_CPTR }, { "fp", T_FPTR }, { "ull", T_ULL } }, T_CPTR, false, T_NONE },
    { "fn8", 1, { { "k", T_INT }, { 0, T_NONE }, { 0, T_NONE } }, T_INT, false, T_NONE },      // one parameter, no output parameter: its short form is a call that is complete the moment it is named
};
enum { N_FN = 9 };

// value pools: index -> concrete value (the description stores indexes, so shrinking and printing stay simple)
static const long long intPool[] = { 0, 1, -1, 7, INT_MAX, INT_MIN, 42, 1000 };
static const unsigned long long uintPool[] = { 0, 1, 2, 4294967295ULL, 2147483648ULL, 77, 9, 65536 };
static const long long longPool[] = { 0, 1, -1, LONG_MAX, LONG_MIN, 2147483648LL, -2147483649LL, 5 };
static const unsigned long long ulongPool[] = { 0, 1, ULONG_MAX, 4294967296ULL, 9223372036854775808ULL, 3, 12, 100 };
static const double dblPool[] = { 0.0, 1.5, -2.25, 1e10, 100.0, 0.25, -7.0, 3.0 };
static const char* const strPool[] = { "", "a", "ab", "a b", "xyz", "A", "hello world", "ab " };
static void fp0() {} static void fp1() {} static void fp2() {} static void fp3() {}
static void (*const fpPool[])() = { fp0, fp1, fp2, fp3, fp0, fp1, fp2, fp3 };
static const unsigned char memPool[8][4] = { { 0, 0, 0, 0 }, { 1, 2, 3, 4 }, { 1, 2, 3, 5 }, { 255, 0, 255, 0 }, { 9, 9, 9, 9 }, { 1, 0, 0, 0 }, { 0, 0, 0, 1 }, { 7, 7, 7, 8 } };
static const size_t memLen[8] = { 4, 4, 4, 4, 2, 1, 3, 0 };
// buffers 4 and 5 are prefixes of buffer 1 at the same address: equal addresses with different lengths are different values
static const unsigned char* memPtr(int v) { return (v == 4 || v == 5) ? memPool[1] : memPool[v]; }
struct MyType { int x; int pad; };
static MyType objPool[8] = { { 0, 0 }, { 1, 0 }, { 2, 0 }, { 3, 0 }, { 4, 0 }, { 5, 0 }, { 6, 0 }, { 7, 0 } };
static char objectsForOnObject[4][8];
static void* objectPtr(int id) { return id == 4 ? (void*)0 : (void*)objectsForOnObject[id & 3]; }   // object id 4 is the NULL object
static int otherObject(int id) { return id % 4 + 1; }

static bool g_nestedCmp = false;      // the custom-type comparators themselves make a mock call (in a scope of their own that ignores other calls) while they compare
class MyTypeComparator : public MockNamedValueComparator {
public:
    bool isEqual(const void* a, const void* b) CPPUTEST_OVERRIDE { if (g_nestedCmp) mock("cmp").actualCall("isEqual"); return ((const MyType*)a)->x == ((const MyType*)b)->x && ((const MyType*)a)->x != 5; }   // the value 5 equals nothing, not even itself (a "no reading" value)
    SimpleString valueToString(const void* a) CPPUTEST_OVERRIDE { return StringFromFormat("MyType(%d)", ((const MyType*)a)->x); }
};
class MyTypeCopier : public MockNamedValueCopier {
public:
    void copy(void* dst, const void* src) CPPUTEST_OVERRIDE { *(MyType*)dst = *(const MyType*)src; }
};
class MyType2Comparator : public MockNamedValueComparator {       // same equality, another text
public:
    bool isEqual(const void* a, const void* b) CPPUTEST_OVERRIDE { if (g_nestedCmp) mock("cmp").actualCall("isEqual"); return ((const MyType*)a)->x == ((const MyType*)b)->x && ((const MyType*)a)->x != 5; }
    SimpleString valueToString(const void* a) CPPUTEST_OVERRIDE { return StringFromFormat("Second[%d]", ((const MyType*)a)->x); }
};
class MyType3Comparator : public MockNamedValueComparator {       // not symmetric: an expected n accepts an actual n or n+1 (first argument = the expected object, as the framework calls it)
public:
    bool isEqual(const void* e, const void* a) CPPUTEST_OVERRIDE { return ((const MyType*)e)->x == ((const MyType*)a)->x || ((const MyType*)e)->x + 1 == ((const MyType*)a)->x; }
    SimpleString valueToString(const void* a) CPPUTEST_OVERRIDE { return StringFromFormat("Third<%d>", ((const MyType*)a)->x); }
};
static const double tolPool[4] = { 0.0, 0.0, 0.3, -1.0 };      // index 1: exact match asked for explicitly
extern "C" {
static int myTypeEqualC(const void* a, const void* b) { if (g_nestedCmp) mock_scope_c("cmp")->actualCall("isEqual"); return ((const MyType*)a)->x == ((const MyType*)b)->x && ((const MyType*)a)->x != 5; }
static const char* myTypeToStringC(const void* a) { static char buf[32]; snprintf(buf, sizeof buf, "MyType(%d)", ((const MyType*)a)->x); return buf; }
static void myTypeCopyC(void* dst, const void* src) { *(MyType*)dst = *(const MyType*)src; }
static int myType3EqualC(const void* e, const void* a) { return ((const MyType*)e)->x == ((const MyType*)a)->x || ((const MyType*)e)->x + 1 == ((const MyType*)a)->x; }
static const char* myType3ToStringC(const void* a) { static char buf[32]; snprintf(buf, sizeof buf, "Third<%d>", ((const MyType*)a)->x); return buf; }
static const char* myType2ToStringC(const void* a) { static char buf[32]; snprintf(buf, sizeof buf, "Second[%d]", ((const MyType*)a)->x); return buf; }
}

static Vec<int> parseIdx(const Str& s) { Vec<int> v; size_t p = 0; while (p < s.size()) { v.push_back(atoi(s.c_str() + p)); size_t q = s.find(',', p); if (q == Str::npos) break; p = q + 1; } return v; }
static Str joinIdx(const Vec<int>& v) { Str s; for (size_t i = 0; i < v.size(); i++) { if (i) s += ","; s += sfmt("%d", v[i]); } return s; }

// ------------------------------------------------------------------------------------------------ front ends
struct Outcome {           // what one execution of a scenario looked like from the outside
    Vec<Str> log;          // per completed call: returned value through every legal getter, output bytes
    Vec<Str> otherHas, otherVal;   // per completed call: what the other mock support (root vs. named scope) answers about return values
    size_t failures; Str firstFailure; Str allText; bool bodyCompleted; size_t callsMade; size_t crashes /* times the framework's crash method was asked for (crashOnFailure) */;
    Outcome() : failures(0), bodyCompleted(false), callsMade(0), crashes(0) {}
};
struct CallPlan { int fn; int obj; Vec<int> vals; Str dev; int task; bool extra; int scope; bool shortForm; int xget; bool midRoot; bool midClear /* a scope nobody uses is cleared while this call is under way */; bool outFirst /* the output parameter is passed before the input parameters */; };   // xget: 0, or one more read of the returned value through getter number xget, whatever the stored type
struct ExpPlan { int fn; int count; int flags; int obj; Vec<int> vals; int ret; int scope; };      // flags: 1 ignoreOtherParameters, 2 named scope, 4 short form (last parameter not specified, and not passed by its calls)
struct Scenario { bool strict, ignoreOther, useScope, preFail; bool nestedCmp /* comparators make a mock call of their own */; bool scopeCopier /* the custom type's copier is installed through the named scope only */; bool unmodOut /* the int output parameter is expected unmodified; calls may then pass no destination (NULL) */; bool crashOn /* crashOnFailure switched on: the crash method (a counter here) must be asked for by the same failures through both interfaces */; bool leaveDisabled /* the body ends by switching the mock off */; bool otherVal /* also read a value through the other mock support (known finding C19-support-level-value-of-other-scope) */; int rounds; int type2 /* fn6's object parameter uses a second custom type: same equality function, other to-string */, tol /* 0 none, else index into tolPool for fn3's double parameter */; Vec<ExpPlan> exps; Vec<CallPlan> calls; Vec<Op> data; };

static const char* objType(const Scenario& sc) { return sc.type2 == 2 ? "MyType3" : (sc.type2 ? "MyType2" : "MyType"); }
// how many parameters an expectation specifies: all, or all but the last for ignoreOtherParameters (functions with two or more) and for the short form (functions with one or more)
static int specCount(const Fn& F, int flags) { if ((flags & 4) && F.np >= 1) return F.np - 1; if ((flags & 1) && F.np > 1) return F.np - 1; return F.np; }
struct Front {
    virtual ~Front() {}
    virtual const char* id() = 0;
    virtual void begin(const Scenario& sc) = 0;
    virtual void expect(const Scenario& sc, const ExpPlan& e) = 0;
    virtual void call(const Scenario& sc, const CallPlan& c, Outcome& o) = 0;   // may not return (failure terminates the test)
    virtual void data(const Op& o, Outcome& out) = 0;
    virtual void check(const Scenario& sc) = 0;     // explicit checkExpectations, as a teardown would do
    virtual void clear() = 0;
    virtual void disable() = 0;
    virtual void callWhileDisabled(Outcome& o) = 0;      // a mocked function is called while the mock is switched off: nothing is expected, nothing is returned but the caller's defaults     // the test switches the mock off and leaves it so: the clear after the test switches it on again
};

static Str tagName(const SimpleString& cppType) {
    const char* t = cppType.asCharString();
    if (!strcmp(t, "bool")) return "BOOL"; if (!strcmp(t, "int")) return "INTEGER"; if (!strcmp(t, "unsigned int")) return "UNSIGNED_INTEGER";
    if (!strcmp(t, "long int")) return "LONG_INTEGER"; if (!strcmp(t, "unsigned long int")) return "UNSIGNED_LONG_INTEGER";
    if (!strcmp(t, "long long int")) return "LONG_LONG_INTEGER"; if (!strcmp(t, "unsigned long long int")) return "UNSIGNED_LONG_LONG_INTEGER";
    if (!strcmp(t, "double")) return "DOUBLE"; if (!strcmp(t, "const char*")) return "STRING"; if (!strcmp(t, "void*")) return "POINTER";
    if (!strcmp(t, "const void*")) return "CONST_POINTER"; if (!strcmp(t, "void (*)()")) return "FUNCTIONPOINTER"; if (!strcmp(t, "const unsigned char*")) return "MEMORYBUFFER";
    return Str("OBJECT:") + t;
}
static Str tagNameC(MockValueType_c t) {
    switch (t) {
    case MOCKVALUETYPE_BOOL: return "BOOL"; case MOCKVALUETYPE_UNSIGNED_INTEGER: return "UNSIGNED_INTEGER"; case MOCKVALUETYPE_INTEGER: return "INTEGER";
    case MOCKVALUETYPE_LONG_INTEGER: return "LONG_INTEGER"; case MOCKVALUETYPE_UNSIGNED_LONG_INTEGER: return "UNSIGNED_LONG_INTEGER";
    case MOCKVALUETYPE_LONG_LONG_INTEGER: return "LONG_LONG_INTEGER"; case MOCKVALUETYPE_UNSIGNED_LONG_LONG_INTEGER: return "UNSIGNED_LONG_LONG_INTEGER";
    case MOCKVALUETYPE_DOUBLE: return "DOUBLE"; case MOCKVALUETYPE_STRING: return "STRING"; case MOCKVALUETYPE_POINTER: return "POINTER";
    case MOCKVALUETYPE_CONST_POINTER: return "CONST_POINTER"; case MOCKVALUETYPE_FUNCTIONPOINTER: return "FUNCTIONPOINTER"; case MOCKVALUETYPE_MEMORYBUFFER: return "MEMORYBUFFER";
    default: return "OBJECT";
    }
}
static void* retPtr(int rv) { return rv == 0 ? (void*)0 : (void*)(uintptr_t)(0x3000 + 16 * rv); }   // class 0 returns the NULL pointer
static int fpIndex(void (*f)()) { for (int i = 0; i < 4; i++) if (fpPool[i] == f) return i; return -1; }
// "retype:k": the same integer passed as a long; "wrap:k": the integer plus 2^32 passed as a long (equal low 32 bits, another number)
static int retypeMode(int k, const Str& dev) { if (dev == sfmt("retype:%d", k)) return 1; if (dev == sfmt("wrap:%d", k)) return 2; return 0; }
static long retyped(long long v, int mode) { return mode == 2 ? (long)(v + 4294967296LL) : (long)v; }
static const char* paramNameFor(const Fn& F, int k, const Str& dev) {
    static char buf[32];
    if (dev == sfmt("rename:%d", k)) { snprintf(buf, sizeof buf, "%s_x", F.p[k].name); return buf; }
    Str pre = sfmt("borrow:%d:", k);      // the name of a parameter that only another function of the scenario has
    if (dev.compare(0, pre.size(), pre) == 0) { snprintf(buf, sizeof buf, "%s", dev.c_str() + pre.size()); return buf; }
    return F.p[k].name;
}

// ---- C++ front end
struct CppFront : public Front {
    const char* id() { return "cpp"; }
    MockSupport& m(const Scenario& sc, int scope = 0) { return (sc.useScope || scope) ? mock("scope1") : mock(); }
    void begin(const Scenario& sc) {
        static MyTypeComparator cmp; static MyTypeCopier cp;
        mock().installComparator("MyType", cmp); if (sc.scopeCopier) mock("scope1").installCopier("MyType", cp); else mock().installCopier("MyType", cp);
        static MyType2Comparator cmp2; mock().installComparator("MyType2", cmp2); mock().installCopier("MyType2", cp);
        static MyType3Comparator cmp3; mock().installComparator("MyType3", cmp3); mock().installCopier("MyType3", cp);
        mock("scope1");                                  // the named scope exists before anything recursive is switched on
        if (sc.strict) m(sc).strictOrder();
        if (sc.ignoreOther) mock().ignoreOtherCalls();
        mock().crashOnFailure(sc.crashOn);
        g_nestedCmp = sc.nestedCmp; if (sc.nestedCmp) mock("cmp").ignoreOtherCalls();
    }
    void expect(const Scenario& sc, const ExpPlan& e) {
        const Fn& F = FNS[e.fn];
        if (e.count == 0 && !(e.flags & 8)) { m(sc, e.scope).expectNoCall(F.name); return; }
        MockExpectedCall& x = e.count == 1 ? m(sc, e.scope).expectOneCall(F.name) : m(sc, e.scope).expectNCalls((unsigned)e.count, F.name);
        if (e.obj) x.onObject(objectPtr(e.obj));
        int np = specCount(F, e.flags);     // ignoreOtherParameters / short form: the last parameter is left unspecified
        for (int k = 0; k < np; k++) {
            int v = e.vals[(size_t)k] & 7;
            switch (F.p[k].ty) {
            case T_BOOL: x.withParameter(F.p[k].name, (v & 1) != 0); break;
            case T_INT: x.withParameter(F.p[k].name, (int)intPool[v]); break;
            case T_UINT: x.withParameter(F.p[k].name, (unsigned)uintPool[v]); break;
            case T_LONG: x.withParameter(F.p[k].name, (long)longPool[v]); break;
            case T_ULONG: x.withParameter(F.p[k].name, (unsigned long)ulongPool[v]); break;
            case T_LL: x.withParameter(F.p[k].name, (cpputest_longlong)longPool[v]); break;
            case T_ULL: x.withParameter(F.p[k].name, (cpputest_ulonglong)ulongPool[v]); break;
            case T_DOUBLE: if (sc.tol) x.withParameter(F.p[k].name, dblPool[v], tolPool[sc.tol]); else x.withParameter(F.p[k].name, dblPool[v]); break;
            case T_STRING: x.withParameter(F.p[k].name, strPool[v]); break;
            case T_PTR: x.withParameter(F.p[k].name, (void*)(uintptr_t)(0x1000 + 16 * v)); break;
            case T_CPTR: x.withParameter(F.p[k].name, (const void*)(uintptr_t)(0x2000 + 16 * v)); break;
            case T_FPTR: x.withParameter(F.p[k].name, fpPool[v & 3]); break;
            case T_MEM: x.withParameter(F.p[k].name, memPtr(v), memLen[v]); break;
            case T_OBJ: x.withParameterOfType(objType(sc), F.p[k].name, &objPool[v]); break;
            default: break;
            }
        }
        if (e.flags & 1) x.ignoreOtherParameters();
        static int outInts[8] = { 100, 101, 102, 103, 104, 105, 106, 107 };
        if (F.out && F.outTy == T_INT) { if (sc.unmodOut) x.withUnmodifiedOutputParameter("out"); else x.withOutputParameterReturning("out", &outInts[e.ret & 7], sizeof(int)); }
        if (F.out && F.outTy == T_OBJ) x.withOutputParameterOfTypeReturning("MyType", "out", &objPool[e.ret & 7]);
        int rv = e.ret & 7;
        if (rv != 7) switch (F.ret) {          // 7: no return value specified
        case T_BOOL: x.andReturnValue((rv & 1) != 0); break;
        case T_INT: x.andReturnValue((int)(1000 + rv)); break;
        case T_STRING: x.andReturnValue(strPool[rv]); break;
        case T_DOUBLE: x.andReturnValue(dblPool[rv] + 0.125); break;
        case T_PTR: x.andReturnValue(retPtr(rv)); break;
        case T_CPTR: x.andReturnValue((const void*)retPtr(rv)); break;
        case T_LL: x.andReturnValue((cpputest_longlong)(longPool[rv])); break;
        case T_ULONG: x.andReturnValue((unsigned long)ulongPool[rv]); break;
        default: break;
        }
    }
    void call(const Scenario& sc, const CallPlan& c, Outcome& o) {
        if (c.extra) { m(sc, c.scope).actualCall("not_expected_fn"); o.callsMade++; o.log.push_back("extra ignored"); return; }
        const Fn& F = FNS[c.fn];
        MockActualCall& x = m(sc, c.scope).actualCall(F.name);
        (void)((sc.useScope || c.scope) ? mock() : mock("scope1")).hasReturnValue(); (void)m(sc, c.scope);      // the other mock support is looked at while this call is still being made, then the call goes on
        if (c.obj && c.dev != "noobject") x.onObject(objectPtr(c.dev == "object" ? otherObject(c.obj) : c.obj));
        if (c.midRoot && sc.ignoreOther && (sc.useScope || c.scope)) mock().actualCall("not_expected_fn");      // e.g. an argument expression that itself calls a mocked function of the root mock
        int outInt = -1; MyType outObj = { -1, 0 };
        if (c.outFirst && F.out && F.outTy == T_INT) x.withOutputParameter("out", (sc.unmodOut && (c.vals.empty() ? c.task : c.vals[0] + c.task) % 2) ? (void*)0 : (void*)&outInt);      // (argument order is the caller's business: the destination may come first)
        if (c.outFirst && F.out && F.outTy == T_OBJ) x.withOutputParameterOfType("MyType", "out", &outObj);
        for (int k = 0; k < F.np; k++) {
            if (c.dev == sfmt("omit:%d", k)) continue;
            if (c.shortForm && F.np >= 1 && k == F.np - 1) continue;
            int v = c.vals[(size_t)k] & 7; const char* pn = paramNameFor(F, k, c.dev);
            switch (F.p[k].ty) {
            case T_BOOL: x.withParameter(pn, (v & 1) != 0); break;
            case T_INT: if (retypeMode(k, c.dev)) x.withParameter(pn, retyped(intPool[v], retypeMode(k, c.dev))); else x.withParameter(pn, (int)intPool[v]); break;
            case T_UINT: if (retypeMode(k, c.dev)) x.withParameter(pn, retyped((long long)uintPool[v], retypeMode(k, c.dev))); else x.withParameter(pn, (unsigned)uintPool[v]); break;
            case T_LONG: x.withParameter(pn, (long)longPool[v]); break;
            case T_ULONG: x.withParameter(pn, (unsigned long)ulongPool[v]); break;
            case T_LL: x.withParameter(pn, (cpputest_longlong)longPool[v]); break;
            case T_ULL: x.withParameter(pn, (cpputest_ulonglong)ulongPool[v]); break;
            case T_DOUBLE: x.withParameter(pn, dblPool[v] + (sc.tol ? 0.001 : 0.0)); break;      // with a tolerance in play the actual value is slightly off
            case T_STRING: x.withParameter(pn, strPool[v]); break;
            case T_PTR: x.withParameter(pn, (void*)(uintptr_t)(0x1000 + 16 * v)); break;
            case T_CPTR: x.withParameter(pn, (const void*)(uintptr_t)(0x2000 + 16 * v)); break;
            case T_FPTR: x.withParameter(pn, fpPool[v & 3]); break;
            case T_MEM: x.withParameter(pn, memPtr(v), memLen[v]); break;
            case T_OBJ: x.withParameterOfType(objType(sc), pn, &objPool[v]); break;
            default: break;
            }
        }
        if (!c.outFirst && F.out && F.outTy == T_INT) x.withOutputParameter("out", (sc.unmodOut && (c.vals.empty() ? c.task : c.vals[0] + c.task) % 2) ? (void*)0 : (void*)&outInt);      // an optional out-argument the caller does not want
        if (!c.outFirst && F.out && F.outTy == T_OBJ) x.withOutputParameterOfType("MyType", "out", &outObj);
        if (c.midClear) mock("io").clear();      // another scope (one nobody uses) is cleared in the middle of this call: nothing of this call changes
        // returned value through every getter that is legal for the type, plus the tagged form and the defaulting getters
        Str line = sfmt("%s has=%d", F.name, (int)x.hasReturnValue());
        MockNamedValue rv = x.returnValue();
        line += " tag=" + (x.hasReturnValue() ? tagName(rv.getType()) : Str("-"));
        bool has = x.hasReturnValue();
        switch (F.ret) {
        case T_BOOL: line += sfmt(" def=%d", (int)x.returnBoolValueOrDefault(true)); if (has) line += sfmt(" v=%d", (int)x.returnBoolValue()); break;
        case T_INT: line += sfmt(" def=%d", x.returnIntValueOrDefault(-5)); if (has) line += sfmt(" v=%d asLong=%ld asLL=%lld", x.returnIntValue(), x.returnLongIntValue(), (long long)x.returnLongLongIntValue()); break;
        case T_STRING: line += sfmt(" def=%s", x.returnStringValueOrDefault("dflt")); if (has) line += sfmt(" v=%s", x.returnStringValue()); break;
        case T_DOUBLE: line += sfmt(" def=%.6f", x.returnDoubleValueOrDefault(9.5)); if (has) line += sfmt(" v=%.6f", x.returnDoubleValue()); break;
        case T_PTR: line += sfmt(" def=%lx", (unsigned long)(uintptr_t)x.returnPointerValueOrDefault((void*)0x77)); if (has) line += sfmt(" v=%lx", (unsigned long)(uintptr_t)x.returnPointerValue()); break;
        case T_CPTR: line += sfmt(" def=%lx", (unsigned long)(uintptr_t)x.returnConstPointerValueOrDefault((const void*)0x77)); if (has) line += sfmt(" v=%lx", (unsigned long)(uintptr_t)x.returnConstPointerValue()); break;
        case T_LL: line += sfmt(" def=%lld", (long long)x.returnLongLongIntValueOrDefault(-9)); if (has) line += sfmt(" v=%lld", (long long)x.returnLongLongIntValue()); break;
        case T_ULONG: line += sfmt(" def=%lu", x.returnUnsignedLongIntValueOrDefault(8)); if (has) line += sfmt(" v=%lu asULL=%llu", x.returnUnsignedLongIntValue(), (unsigned long long)x.returnUnsignedLongLongIntValue()); break;
        default: line += sfmt(" defInt=%d defStr=%s defPtr=%lx defBool=%d", x.returnIntValueOrDefault(-5), x.returnStringValueOrDefault("dflt"), (unsigned long)(uintptr_t)x.returnPointerValueOrDefault((void*)0x77), (int)x.returnBoolValueOrDefault(true)); break;
        }
        if (F.out && F.outTy == T_INT) line += sfmt(" out=%d", outInt);
        if (F.out && F.outTy == T_OBJ) line += sfmt(" out=MyType(%d)", outObj.x);
        {   // what the OTHER mock support (root when the call went to the scope, the scope otherwise) says about return values: nothing of this call
            MockSupport& O = (sc.useScope || c.scope) ? mock() : mock("scope1");
            o.otherHas.push_back(sfmt("%s other has=%d", F.name, (int)O.hasReturnValue()));
            if (sc.otherVal) o.otherVal.push_back(sfmt("%s other defInt=%d", F.name, O.returnIntValueOrDefault(-77)));
        }
        {   // the same value through the mock-support level getters of the scope the call was made in
            MockSupport& M = m(sc, c.scope); bool h2 = M.hasReturnValue();
            line += sfmt(" | sup has=%d tag=%s", (int)h2, h2 ? tagName(M.returnValue().getType()).c_str() : "-");
            switch (F.ret) {
            case T_INT: line += sfmt(" def=%d", M.returnIntValueOrDefault(-5)); if (h2) line += sfmt(" v=%d", M.intReturnValue()); break;
            case T_STRING: line += sfmt(" def=%s", M.returnStringValueOrDefault("dflt")); if (h2) line += sfmt(" v=%s", M.stringReturnValue()); break;
            case T_PTR: line += sfmt(" def=%lx", (unsigned long)(uintptr_t)M.returnPointerValueOrDefault((void*)0x77)); if (h2) line += sfmt(" v=%lx", (unsigned long)(uintptr_t)M.pointerReturnValue()); break;
            case T_BOOL: line += sfmt(" def=%d", (int)M.returnBoolValueOrDefault(true)); break;
            case T_ULONG: line += sfmt(" def=%lu", M.returnUnsignedLongIntValueOrDefault(8)); if (h2) line += sfmt(" v=%lu", M.unsignedLongIntReturnValue()); break;
            case T_LL: line += sfmt(" def=%lld", (long long)M.returnLongLongIntValueOrDefault(-9)); break;
            case T_DOUBLE: line += sfmt(" def=%.6f", M.returnDoubleValueOrDefault(9.5)); break;
            default: break;
            }
        }
        if (c.xget) {       // one more read through a getter chosen without regard to the stored type: a mismatch must fail the test the same way through both interfaces
            switch (c.xget) {
            case 1: line += sfmt(" x1=%d", (int)x.returnBoolValue()); break; case 2: line += sfmt(" x2=%d", x.returnIntValue()); break; case 3: line += sfmt(" x3=%u", x.returnUnsignedIntValue()); break;
            case 4: line += sfmt(" x4=%ld", x.returnLongIntValue()); break; case 5: line += sfmt(" x5=%lu", x.returnUnsignedLongIntValue()); break; case 6: line += sfmt(" x6=%lld", (long long)x.returnLongLongIntValue()); break;
            case 7: line += sfmt(" x7=%llu", (unsigned long long)x.returnUnsignedLongLongIntValue()); break; case 8: line += sfmt(" x8=%.6f", x.returnDoubleValue()); break; case 9: line += sfmt(" x9=%s", x.returnStringValue()); break;
            case 10: line += sfmt(" x10=%lx", (unsigned long)(uintptr_t)x.returnPointerValue()); break; case 11: line += sfmt(" x11=%lx", (unsigned long)(uintptr_t)x.returnConstPointerValue()); break;
            case 12: line += sfmt(" x12=fp%d", fpIndex(x.returnFunctionPointerValue())); break;
            case 13: line += sfmt(" x13=%u", x.returnUnsignedIntValueOrDefault(3u)); break; case 14: line += sfmt(" x14=%ld", x.returnLongIntValueOrDefault(-4L)); break;
            case 15: line += sfmt(" x15=%lu", x.returnUnsignedLongIntValueOrDefault(5UL)); break; case 16: line += sfmt(" x16=%lld", (long long)x.returnLongLongIntValueOrDefault(-6)); break;
            case 17: line += sfmt(" x17=%llu", (unsigned long long)x.returnUnsignedLongLongIntValueOrDefault(7)); break; case 18: line += sfmt(" x18=%.6f", x.returnDoubleValueOrDefault(8.5)); break;
            case 19: line += sfmt(" x19=%s", x.returnStringValueOrDefault("nine")); break; case 20: line += sfmt(" x20=%lx", (unsigned long)(uintptr_t)x.returnConstPointerValueOrDefault((const void*)0x20)); break;
            case 21: line += sfmt(" x21=fp%d", fpIndex(x.returnFunctionPointerValueOrDefault(fpPool[1]))); break; case 22: line += sfmt(" x22=%d", x.returnIntValueOrDefault(22)); break;
            case 23: line += sfmt(" x23=%d", (int)x.returnBoolValueOrDefault(false)); break; default: line += sfmt(" x24=%lx", (unsigned long)(uintptr_t)x.returnPointerValueOrDefault((void*)0x24)); break;
            }
        }
        o.log.push_back(line); o.callsMade++;
    }
    void check(const Scenario&) { mock().checkExpectations(); }
    void clear() { mock().clear(); }
    void disable() { mock().disable(); }
    void callWhileDisabled(Outcome& o) {
        MockActualCall& x = mock().actualCall("fn_called_while_disabled").withParameter("p", 1);
        o.log.push_back(sfmt("disabled has=%d defInt=%d defStr=%s | sup has=%d defInt=%d", (int)x.hasReturnValue(), x.returnIntValueOrDefault(7), x.returnStringValueOrDefault("dflt"), (int)mock().hasReturnValue(), mock().returnIntValueOrDefault(7)));
    }
    void data(const Op& op, Outcome& out) {
        MockSupport& M = mock();
        const char* nm = op.s.c_str(); int v = (int)(op.b & 7);
        switch (op.a) {
        case T_BOOL: M.setData(nm, (v & 1) != 0); break; case T_INT: M.setData(nm, (int)intPool[v]); break; case T_UINT: M.setData(nm, (unsigned)uintPool[v]); break;
        case T_STRING: M.setData(nm, strPool[v]); break; case T_DOUBLE: M.setData(nm, dblPool[v]); break; case T_PTR: M.setData(nm, (void*)(uintptr_t)(0x1000 + 16 * v)); break;
        case T_CPTR: M.setData(nm, (const void*)(uintptr_t)(0x2000 + 16 * v)); break; case T_FPTR: M.setData(nm, fpPool[v & 3]); break;
        case T_OBJ: M.setDataObject(nm, "MyType", &objPool[v]); break;
        default: return;
        }
        MockNamedValue g = M.getData(nm);
        Str line = Str("data ") + nm + " tag=" + tagName(g.getType());
        switch (op.a) {
        case T_BOOL: line += sfmt(" v=%d", (int)g.getBoolValue()); break; case T_INT: line += sfmt(" v=%d", g.getIntValue()); break; case T_UINT: line += sfmt(" v=%u", g.getUnsignedIntValue()); break;
        case T_STRING: line += sfmt(" v=%s", g.getStringValue()); break; case T_DOUBLE: line += sfmt(" v=%.6f", g.getDoubleValue()); break; case T_PTR: line += sfmt(" v=%lx", (unsigned long)(uintptr_t)g.getPointerValue()); break;
        case T_CPTR: line += sfmt(" v=%lx", (unsigned long)(uintptr_t)g.getConstPointerValue()); break; case T_FPTR: line += sfmt(" v=fp%d", fpIndex(g.getFunctionPointerValue())); break;
        case T_OBJ: line += sfmt(" v=MyType(%d)", ((MyType*)g.getObjectPointer())->x); break;
        default: break;
        }
        MockNamedValue none = M.getData((Str(nm) + "~never set").c_str());                          // a key nobody stored: both interfaces answer with the same empty value
        out.log.push_back(line + " | absent tag=" + tagName(none.getType()) + sfmt(" v=%d", none.getType() == "int" ? none.getIntValue() : -1));
    }
};

// ---- C front end
struct CFront : public Front {
    const char* id() { return "c"; }
    MockSupport_c* m(const Scenario& sc, int scope = 0) { return (sc.useScope || scope) ? mock_scope_c("scope1") : mock_c(); }
    void begin(const Scenario& sc) {
        mock_c()->installComparator("MyType", myTypeEqualC, myTypeToStringC); if (sc.scopeCopier) mock_scope_c("scope1")->installCopier("MyType", myTypeCopyC); else mock_c()->installCopier("MyType", myTypeCopyC);
        mock_c()->installComparator("MyType2", myTypeEqualC, myType2ToStringC); mock_c()->installCopier("MyType2", myTypeCopyC);
        mock_c()->installComparator("MyType3", myType3EqualC, myType3ToStringC); mock_c()->installCopier("MyType3", myTypeCopyC);
        mock_scope_c("scope1");
        if (sc.strict) m(sc)->strictOrder();
        if (sc.ignoreOther) mock_c()->ignoreOtherCalls();
        mock_c()->crashOnFailure(sc.crashOn ? 1 : 0);
        g_nestedCmp = sc.nestedCmp; if (sc.nestedCmp) mock_scope_c("cmp")->ignoreOtherCalls();
    }
    void expect(const Scenario& sc, const ExpPlan& e) {
        const Fn& F = FNS[e.fn];
        if (e.count == 0 && !(e.flags & 8)) { m(sc, e.scope)->expectNoCall(F.name); return; }
        MockExpectedCall_c* x = e.count == 1 ? m(sc, e.scope)->expectOneCall(F.name) : m(sc, e.scope)->expectNCalls((unsigned)e.count, F.name);
        int np = specCount(F, e.flags);
        for (int k = 0; k < np; k++) {
            int v = e.vals[(size_t)k] & 7;
            switch (F.p[k].ty) {
            case T_BOOL: x->withBoolParameters(F.p[k].name, (v & 1)); break;
            case T_INT: x->withIntParameters(F.p[k].name, (int)intPool[v]); break;
            case T_UINT: x->withUnsignedIntParameters(F.p[k].name, (unsigned)uintPool[v]); break;
            case T_LONG: x->withLongIntParameters(F.p[k].name, (long)longPool[v]); break;
            case T_ULONG: x->withUnsignedLongIntParameters(F.p[k].name, (unsigned long)ulongPool[v]); break;
            case T_LL: x->withLongLongIntParameters(F.p[k].name, (cpputest_longlong)longPool[v]); break;
            case T_ULL: x->withUnsignedLongLongIntParameters(F.p[k].name, (cpputest_ulonglong)ulongPool[v]); break;
            case T_DOUBLE: if (sc.tol) x->withDoubleParametersAndTolerance(F.p[k].name, dblPool[v], tolPool[sc.tol]); else x->withDoubleParameters(F.p[k].name, dblPool[v]); break;
            case T_STRING: x->withStringParameters(F.p[k].name, strPool[v]); break;
            case T_PTR: x->withPointerParameters(F.p[k].name, (void*)(uintptr_t)(0x1000 + 16 * v)); break;
            case T_CPTR: x->withConstPointerParameters(F.p[k].name, (const void*)(uintptr_t)(0x2000 + 16 * v)); break;
            case T_FPTR: x->withFunctionPointerParameters(F.p[k].name, fpPool[v & 3]); break;
            case T_MEM: x->withMemoryBufferParameter(F.p[k].name, memPtr(v), memLen[v]); break;
            case T_OBJ: x->withParameterOfType(objType(sc), F.p[k].name, &objPool[v]); break;
            default: break;
            }
        }
        if (e.flags & 1) x->ignoreOtherParameters();
        static int outInts[8] = { 100, 101, 102, 103, 104, 105, 106, 107 };
        if (F.out && F.outTy == T_INT) { if (sc.unmodOut) x->withUnmodifiedOutputParameter("out"); else x->withOutputParameterReturning("out", &outInts[e.ret & 7], sizeof(int)); }
        if (F.out && F.outTy == T_OBJ) x->withOutputParameterOfTypeReturning("MyType", "out", &objPool[e.ret & 7]);
        int rv = e.ret & 7;
        if (rv != 7) switch (F.ret) {
        case T_BOOL: x->andReturnBoolValue(rv & 1); break;
        case T_INT: x->andReturnIntValue(1000 + rv); break;
        case T_STRING: x->andReturnStringValue(strPool[rv]); break;
        case T_DOUBLE: x->andReturnDoubleValue(dblPool[rv] + 0.125); break;
        case T_PTR: x->andReturnPointerValue(retPtr(rv)); break;
        case T_CPTR: x->andReturnConstPointerValue((const void*)retPtr(rv)); break;
        case T_LL: x->andReturnLongLongIntValue((cpputest_longlong)longPool[rv]); break;
        case T_ULONG: x->andReturnUnsignedLongIntValue((unsigned long)ulongPool[rv]); break;
        default: break;
        }
    }
    void call(const Scenario& sc, const CallPlan& c, Outcome& o) {
        if (c.extra) { m(sc, c.scope)->actualCall("not_expected_fn"); o.callsMade++; o.log.push_back("extra ignored"); return; }
        const Fn& F = FNS[c.fn];
        MockActualCall_c* x = m(sc, c.scope)->actualCall(F.name);
        (void)((sc.useScope || c.scope) ? mock_c() : mock_scope_c("scope1"))->hasReturnValue(); (void)m(sc, c.scope);
        int outInt = -1; MyType outObj = { -1, 0 };
        if (c.outFirst && F.out && F.outTy == T_INT) x->withOutputParameter("out", (sc.unmodOut && (c.vals.empty() ? c.task : c.vals[0] + c.task) % 2) ? (void*)0 : (void*)&outInt);
        if (c.outFirst && F.out && F.outTy == T_OBJ) x->withOutputParameterOfType("MyType", "out", &outObj);
        for (int k = 0; k < F.np; k++) {
            if (c.dev == sfmt("omit:%d", k)) continue;
            if (c.shortForm && F.np >= 1 && k == F.np - 1) continue;
            int v = c.vals[(size_t)k] & 7; const char* pn = paramNameFor(F, k, c.dev);
            switch (F.p[k].ty) {
            case T_BOOL: x->withBoolParameters(pn, (v & 1) ? 4 : 0); break;      // in C every non-zero int is true
            case T_INT: if (retypeMode(k, c.dev)) x->withLongIntParameters(pn, retyped(intPool[v], retypeMode(k, c.dev))); else x->withIntParameters(pn, (int)intPool[v]); break;
            case T_UINT: if (retypeMode(k, c.dev)) x->withLongIntParameters(pn, retyped((long long)uintPool[v], retypeMode(k, c.dev))); else x->withUnsignedIntParameters(pn, (unsigned)uintPool[v]); break;
            case T_LONG: x->withLongIntParameters(pn, (long)longPool[v]); break;
            case T_ULONG: x->withUnsignedLongIntParameters(pn, (unsigned long)ulongPool[v]); break;
            case T_LL: x->withLongLongIntParameters(pn, (cpputest_longlong)longPool[v]); break;
            case T_ULL: x->withUnsignedLongLongIntParameters(pn, (cpputest_ulonglong)ulongPool[v]); break;
            case T_DOUBLE: x->withDoubleParameters(pn, dblPool[v] + (sc.tol ? 0.001 : 0.0)); break;
            case T_STRING: x->withStringParameters(pn, strPool[v]); break;
            case T_PTR: x->withPointerParameters(pn, (void*)(uintptr_t)(0x1000 + 16 * v)); break;
            case T_CPTR: x->withConstPointerParameters(pn, (const void*)(uintptr_t)(0x2000 + 16 * v)); break;
            case T_FPTR: x->withFunctionPointerParameters(pn, fpPool[v & 3]); break;
            case T_MEM: x->withMemoryBufferParameter(pn, memPtr(v), memLen[v]); break;
            case T_OBJ: x->withParameterOfType(objType(sc), pn, &objPool[v]); break;
            default: break;
            }
        }
        if (!c.outFirst && F.out && F.outTy == T_INT) x->withOutputParameter("out", (sc.unmodOut && (c.vals.empty() ? c.task : c.vals[0] + c.task) % 2) ? (void*)0 : (void*)&outInt);
        if (!c.outFirst && F.out && F.outTy == T_OBJ) x->withOutputParameterOfType("MyType", "out", &outObj);
        if (c.midClear) { mock_scope_c("io")->clear(); (void)m(sc, c.scope); }      // (then the mock support of this call is addressed again, as the next statement of a C caller would)
        Str line = sfmt("%s has=%d", F.name, x->hasReturnValue() ? 1 : 0);
        MockValue_c rv = x->returnValue();
        line += " tag=" + (x->hasReturnValue() ? tagNameC(rv.type) : Str("-"));
        bool has = x->hasReturnValue() != 0;
        switch (F.ret) {
        case T_BOOL: line += sfmt(" def=%d", x->returnBoolValueOrDefault(1) ? 1 : 0); if (has) line += sfmt(" v=%d", x->boolReturnValue() ? 1 : 0); break;
        case T_INT: line += sfmt(" def=%d", x->returnIntValueOrDefault(-5)); if (has) line += sfmt(" v=%d asLong=%ld asLL=%lld", x->intReturnValue(), x->longIntReturnValue(), (long long)x->longLongIntReturnValue()); break;
        case T_STRING: line += sfmt(" def=%s", x->returnStringValueOrDefault("dflt")); if (has) line += sfmt(" v=%s", x->stringReturnValue()); break;
        case T_DOUBLE: line += sfmt(" def=%.6f", x->returnDoubleValueOrDefault(9.5)); if (has) line += sfmt(" v=%.6f", x->doubleReturnValue()); break;
        case T_PTR: line += sfmt(" def=%lx", (unsigned long)(uintptr_t)x->returnPointerValueOrDefault((void*)0x77)); if (has) line += sfmt(" v=%lx", (unsigned long)(uintptr_t)x->pointerReturnValue()); break;
        case T_CPTR: line += sfmt(" def=%lx", (unsigned long)(uintptr_t)x->returnConstPointerValueOrDefault((const void*)0x77)); if (has) line += sfmt(" v=%lx", (unsigned long)(uintptr_t)x->constPointerReturnValue()); break;
        case T_LL: line += sfmt(" def=%lld", (long long)x->returnLongLongIntValueOrDefault(-9)); if (has) line += sfmt(" v=%lld", (long long)x->longLongIntReturnValue()); break;
        case T_ULONG: line += sfmt(" def=%lu", x->returnUnsignedLongIntValueOrDefault(8)); if (has) line += sfmt(" v=%lu asULL=%llu", x->unsignedLongIntReturnValue(), (unsigned long long)x->unsignedLongLongIntReturnValue()); break;
        default: line += sfmt(" defInt=%d defStr=%s defPtr=%lx defBool=%d", x->returnIntValueOrDefault(-5), x->returnStringValueOrDefault("dflt"), (unsigned long)(uintptr_t)x->returnPointerValueOrDefault((void*)0x77), x->returnBoolValueOrDefault(1) ? 1 : 0); break;
        }
        if (F.out && F.outTy == T_INT) line += sfmt(" out=%d", outInt);
        if (F.out && F.outTy == T_OBJ) line += sfmt(" out=MyType(%d)", outObj.x);
        {
            MockSupport_c* O = (sc.useScope || c.scope) ? mock_c() : mock_scope_c("scope1");
            o.otherHas.push_back(sfmt("%s other has=%d", F.name, O->hasReturnValue() ? 1 : 0));
            if (sc.otherVal) o.otherVal.push_back(sfmt("%s other defInt=%d", F.name, O->returnIntValueOrDefault(-77)));
        }
        {
            MockSupport_c* M = m(sc, c.scope); bool h2 = M->hasReturnValue() != 0;
            line += sfmt(" | sup has=%d tag=%s", (int)h2, h2 ? tagNameC(M->returnValue().type).c_str() : "-");
            switch (F.ret) {
            case T_INT: line += sfmt(" def=%d", M->returnIntValueOrDefault(-5)); if (h2) line += sfmt(" v=%d", M->intReturnValue()); break;
            case T_STRING: line += sfmt(" def=%s", M->returnStringValueOrDefault("dflt")); if (h2) line += sfmt(" v=%s", M->stringReturnValue()); break;
            case T_PTR: line += sfmt(" def=%lx", (unsigned long)(uintptr_t)M->returnPointerValueOrDefault((void*)0x77)); if (h2) line += sfmt(" v=%lx", (unsigned long)(uintptr_t)M->pointerReturnValue()); break;
            case T_BOOL: line += sfmt(" def=%d", M->returnBoolValueOrDefault(1) ? 1 : 0); break;
            case T_ULONG: line += sfmt(" def=%lu", M->returnUnsignedLongIntValueOrDefault(8)); if (h2) line += sfmt(" v=%lu", M->unsignedLongIntReturnValue()); break;
            case T_LL: line += sfmt(" def=%lld", (long long)M->returnLongLongIntValueOrDefault(-9)); break;
            case T_DOUBLE: line += sfmt(" def=%.6f", M->returnDoubleValueOrDefault(9.5)); break;
            default: break;
            }
        }
        if (c.xget) {
            switch (c.xget) {
            case 1: line += sfmt(" x1=%d", x->boolReturnValue() ? 1 : 0); break; case 2: line += sfmt(" x2=%d", x->intReturnValue()); break; case 3: line += sfmt(" x3=%u", x->unsignedIntReturnValue()); break;
            case 4: line += sfmt(" x4=%ld", x->longIntReturnValue()); break; case 5: line += sfmt(" x5=%lu", x->unsignedLongIntReturnValue()); break; case 6: line += sfmt(" x6=%lld", (long long)x->longLongIntReturnValue()); break;
            case 7: line += sfmt(" x7=%llu", (unsigned long long)x->unsignedLongLongIntReturnValue()); break; case 8: line += sfmt(" x8=%.6f", x->doubleReturnValue()); break; case 9: line += sfmt(" x9=%s", x->stringReturnValue()); break;
            case 10: line += sfmt(" x10=%lx", (unsigned long)(uintptr_t)x->pointerReturnValue()); break; case 11: line += sfmt(" x11=%lx", (unsigned long)(uintptr_t)x->constPointerReturnValue()); break;
            case 12: line += sfmt(" x12=fp%d", fpIndex(x->functionPointerReturnValue())); break;
            case 13: line += sfmt(" x13=%u", x->returnUnsignedIntValueOrDefault(3u)); break; case 14: line += sfmt(" x14=%ld", x->returnLongIntValueOrDefault(-4L)); break;
            case 15: line += sfmt(" x15=%lu", x->returnUnsignedLongIntValueOrDefault(5UL)); break; case 16: line += sfmt(" x16=%lld", (long long)x->returnLongLongIntValueOrDefault(-6)); break;
            case 17: line += sfmt(" x17=%llu", (unsigned long long)x->returnUnsignedLongLongIntValueOrDefault(7)); break; case 18: line += sfmt(" x18=%.6f", x->returnDoubleValueOrDefault(8.5)); break;
            case 19: line += sfmt(" x19=%s", x->returnStringValueOrDefault("nine")); break; case 20: line += sfmt(" x20=%lx", (unsigned long)(uintptr_t)x->returnConstPointerValueOrDefault((const void*)0x20)); break;
            case 21: line += sfmt(" x21=fp%d", fpIndex(x->returnFunctionPointerValueOrDefault(fpPool[1]))); break; case 22: line += sfmt(" x22=%d", x->returnIntValueOrDefault(22)); break;
            case 23: line += sfmt(" x23=%d", x->returnBoolValueOrDefault(0) ? 1 : 0); break; default: line += sfmt(" x24=%lx", (unsigned long)(uintptr_t)x->returnPointerValueOrDefault((void*)0x24)); break;
            }
        }
        o.log.push_back(line); o.callsMade++;
    }
    void check(const Scenario&) { mock_c()->checkExpectations(); }
    void clear() { mock_c()->clear(); }
    void disable() { mock_c()->disable(); }
    void callWhileDisabled(Outcome& o) {
        MockActualCall_c* x = mock_c()->actualCall("fn_called_while_disabled")->withIntParameters("p", 1);
        o.log.push_back(sfmt("disabled has=%d defInt=%d defStr=%s | sup has=%d defInt=%d", x->hasReturnValue() ? 1 : 0, x->returnIntValueOrDefault(7), x->returnStringValueOrDefault("dflt"), mock_c()->hasReturnValue() ? 1 : 0, mock_c()->returnIntValueOrDefault(7)));
    }
    void data(const Op& op, Outcome& out) {
        MockSupport_c* M = mock_c();
        const char* nm = op.s.c_str(); int v = (int)(op.b & 7);
        switch (op.a) {
        case T_BOOL: M->setBoolData(nm, v & 1); break; case T_INT: M->setIntData(nm, (int)intPool[v]); break; case T_UINT: M->setUnsignedIntData(nm, (unsigned)uintPool[v]); break;
        case T_STRING: M->setStringData(nm, strPool[v]); break; case T_DOUBLE: M->setDoubleData(nm, dblPool[v]); break; case T_PTR: M->setPointerData(nm, (void*)(uintptr_t)(0x1000 + 16 * v)); break;
        case T_CPTR: M->setConstPointerData(nm, (const void*)(uintptr_t)(0x2000 + 16 * v)); break; case T_FPTR: M->setFunctionPointerData(nm, fpPool[v & 3]); break;
        case T_OBJ: M->setDataObject(nm, "MyType", &objPool[v]); break;
        default: return;
        }
        MockValue_c g = M->getData(nm);
        Str tag = tagNameC(g.type); if (tag == "OBJECT") tag = "OBJECT:MyType";
        Str line = Str("data ") + nm + " tag=" + tag;
        switch (op.a) {
        case T_BOOL: line += sfmt(" v=%d", g.value.boolValue ? 1 : 0); break; case T_INT: line += sfmt(" v=%d", g.value.intValue); break; case T_UINT: line += sfmt(" v=%u", g.value.unsignedIntValue); break;
        case T_STRING: line += sfmt(" v=%s", g.value.stringValue); break; case T_DOUBLE: line += sfmt(" v=%.6f", g.value.doubleValue); break; case T_PTR: line += sfmt(" v=%lx", (unsigned long)(uintptr_t)g.value.pointerValue); break;
        case T_CPTR: line += sfmt(" v=%lx", (unsigned long)(uintptr_t)g.value.constPointerValue); break; case T_FPTR: line += sfmt(" v=fp%d", fpIndex((void (*)())g.value.functionPointerValue)); break;
        case T_OBJ: line += sfmt(" v=MyType(%d)", ((MyType*)g.value.objectValue)->x); break;
        default: break;
        }
        MockValue_c none = M->getData((Str(nm) + "~never set").c_str());
        out.log.push_back(line + " | absent tag=" + tagNameC(none.type) + sfmt(" v=%d", none.type == MOCKVALUETYPE_INTEGER ? none.value.intValue : -1));
    }
};

// ------------------------------------------------------------------------------------------------ running scenarios as real tests
struct TestCtx { const Scenario* sc; Front* front; Outcome* out; const Vec<size_t>* order; };
static Vec<TestCtx> g_tests; static int g_current = -1; static bool g_noPlugin = false;

static void countCrashRequest() { if (g_current >= 0 && (size_t)g_current < g_tests.size()) g_tests[(size_t)g_current].out->crashes++; }
static void scenarioBody() {
    TestCtx& T = g_tests[(size_t)g_current];
    const Scenario& sc = *T.sc;
    T.front->begin(sc);
    for (size_t i = 0; i < sc.data.size(); i++) T.front->data(sc.data[i], *T.out);
    for (int round = 0; round < sc.rounds; round++) {
        for (size_t i = 0; i < sc.exps.size(); i++) T.front->expect(sc, sc.exps[i]);
        for (size_t i = 0; i < T.order->size(); i++) T.front->call(sc, sc.calls[(*T.order)[i]], *T.out);
        if (sc.rounds > 1) { T.front->check(sc); T.front->clear(); }       // check and clear, then the same scenario once more in the same test
    }
    T.out->bodyCompleted = true;
    if (sc.leaveDisabled) { T.front->disable(); T.front->callWhileDisabled(*T.out); }
}
class ScenarioTest : public Utest {
public:
    void testBody() CPPUTEST_OVERRIDE {
        TestCtx& T = g_tests[(size_t)g_current];
        if (T.sc->preFail) {          // the test fails on its own first; its teardown then asks the mock to check
            T.front->begin(*T.sc);
            for (size_t i = 0; i < T.sc->exps.size(); i++) T.front->expect(*T.sc, T.sc->exps[i]);
            FAIL_TEST_LOCATION("the test's own failure", "scenario.cpp", 99);
        }
        scenarioBody();
    }
    void teardown() CPPUTEST_OVERRIDE { TestCtx& T = g_tests[(size_t)g_current]; if (T.sc->preFail || g_noPlugin) T.front->check(*T.sc); if (g_noPlugin) T.front->clear(); }      // without the mock plugin: the usual teardown, check then clear (a failing check leaves the teardown)
};
class ScenarioShell : public UtestShell {
public:
    int idx;
    ScenarioShell(const char* name, int i) : UtestShell("MockScenarios", name, "scenario.cpp", 10 + (size_t)i), idx(i) {}
    Utest* createTest() CPPUTEST_OVERRIDE { g_current = idx; return new ScenarioTest; }
};
class RecOutput : public StringBufferTestOutput {
public:
    Vec<std::pair<Str, Str> > fails;   // (test name, message)
    void printFailure(const TestFailure& f) CPPUTEST_OVERRIDE { fails.push_back(std::make_pair(Str(f.getTestNameOnly().asCharString()), Str(f.getMessage().asCharString()))); StringBufferTestOutput::printFailure(f); }
};

static Str firstLine(const Str& s) { size_t p = s.find('\n'); return p == Str::npos ? s : s.substr(0, p); }
// addresses of functions and statics move with ASLR: keep them out of the event-log hash
static Str noAddrs(const Str& in) { Str out; for (size_t i = 0; i < in.size();) { if (in[i] == '0' && i + 1 < in.size() && in[i + 1] == 'x') { size_t j = i + 2; while (j < in.size() && isxdigit((unsigned char)in[j])) j++; if (j - i - 2 >= 9) { out += "0xADDR"; i = j; continue; } } out += in[i++]; } return out; }
static const char* categoryOf(const Str& line) {
    if (line.find("Unexpected additional") != Str::npos) return "additional_call";
    if (line.find("Unexpected call to function") != Str::npos) return "unexpected_call";
    if (line.find("Unexpected parameter name") != Str::npos) return "parameter_name";
    if (line.find("Unexpected parameter value") != Str::npos) return "parameter_value";
    if (line.find("Unexpected output parameter name") != Str::npos) return "output_parameter_name";
    if (line.find("Expected parameter for function") != Str::npos) return "parameter_missing";
    if (line.find("Function called on an unexpected object") != Str::npos) return "unexpected_object";
    if (line.find("Expected call on object for function") != Str::npos) return "object_missing";
    if (line.find("Expected call WAS NOT fulfilled") != Str::npos) return "not_fulfilled";
    if (line.find("Out of order calls") != Str::npos) return "out_of_order";
    return "other";
}

static Json sg(const char* k, const char* v) { Json j = Json::O(); j.set(k, Json::S(v)); return j; }
static Json sg2(const char* k, const char* v, const char* k2, const char* v2) { Json j = Json::O(); j.set(k, Json::S(v)); j.set(k2, Json::S(v2)); return j; }

struct Engine : public vf::Engine {
    const char* name() const { return "mocksim"; }
    const char* variant() const { return "asan"; }
    KindNameFn kindName() const { return ms::kindName; }
    KindFromNameFn kindFromName() const { return ms::kindFromName; }
    void initProcess() { installBasicSeams(); }

    // -------------------------------------------------------------------------------------------- generation
    void generate(uint64_t seed, const Str& profile, Desc& d) {
        Rng w(mix64(seed, 31)), f(mix64(seed, 32));
        bool cfront = profile == "cfront";
        int nScen = (int)w.range(1, 3);
        d.p["schedules"] = cfront ? 2 : w.range(2, 8);
        d.p["no_plugin"] = !cfront && w.chance(1, 5);      // the tests check and clear the mock in their own teardown instead of having the mock plugin installed
        bool faultFree = f.chance(1, 3); d.p["fault_free"] = faultFree;
        for (int s = 0; s < nScen; s++) {
            Group G; G.tag = "scenario";
            bool strict = w.chance(1, 4), ignoreOther = w.chance(1, 5), scope = w.chance(1, 5);
            G.args.push_back(strict); G.args.push_back(ignoreOther); G.args.push_back(scope); G.args.push_back(w.chance(1, cfront ? 6 : 10)); G.args.push_back(cfront && w.chance(1, 6) ? 2 : 1); G.args.push_back(cfront && w.chance(1, 5) ? (w.chance(1, 3) ? 2 : 1) : 0); G.args.push_back(cfront && w.chance(1, 5) ? (int64_t)w.range(1, 3) : 0); G.args.push_back(cfront && w.chance(1, 12)); G.args.push_back(cfront && w.chance(1, 6)); G.args.push_back(cfront && w.chance(1, 6)); G.args.push_back(cfront && w.chance(1, 6)); G.args.push_back(cfront && w.chance(1, 8)); G.args.push_back(w.chance(1, 8));
            bool mixedScopes = !strict && !scope && w.chance(1, 4), shortForms = w.chance(1, 5);
            int nFn = (int)w.range(1, 4); int fns[4]; for (int i = 0; i < nFn; i++) fns[i] = (int)w.below(N_FN);
            int nExp = (int)w.small(1, 12);
            bool useObjects[N_FN]; bool ignoreParams[N_FN];
            for (int i = 0; i < N_FN; i++) { useObjects[i] = !cfront && w.chance(1, 5); ignoreParams[i] = w.chance(1, 8); }
            if (!cfront && w.chance(1, 16)) { fns[0] = 8; if (nFn > 1 && w.chance(1, 2)) nFn = 1; useObjects[8] = true; ignoreParams[8] = false; shortForms = true; }      // a one-parameter function with expectations on objects, on no object, with and without the parameter: tentative matches before the object is known
            Vec<Str> classes;   // "fn|obj|vals" of every expectation class so far
            int totalCalls = 0;
            for (int e = 0; e < nExp && totalCalls < 24; e++) {
                Op o; o.kind = M_EXPECT; o.a = fns[w.below((uint64_t)nFn)]; const Fn& F = FNS[o.a];
                o.b = w.chance(1, 12) ? 0 : w.small(1, 4);
                o.d = useObjects[o.a] ? (w.chance(1, 4) ? 0 : w.range(1, 4)) : 0;      // with objects in play a quarter of the expectations still name none
                Vec<int> vals; for (int k = 0; k < F.np; k++) vals.push_back((int)w.below(F.p[k].ty == T_BOOL ? 2 : (F.p[k].ty == T_FPTR ? 4 : 7)));
                if (ignoreParams[o.a] && F.np > 1) o.c = 1;
                else if (shortForms && F.np >= 1 && w.chance(1, 3)) o.c = 4;           // short form: S = L minus its last parameter
                if (mixedScopes && w.chance(1, 2)) o.c |= 2;
                Vec<int> keyVals = vals; if (o.c & 5) keyVals.pop_back();
                Str key = sfmt("%d|%d|%d|%d|", (int)o.a, (int)o.d, (int)(o.c & 2), (int)(o.c & 4)) + joinIdx(keyVals);
                bool dupKey = std::find(classes.begin(), classes.end(), key) != classes.end();
                bool fnSeen = false; for (size_t k = 0; k < classes.size(); k++) if (atoi(classes[k].c_str()) == (int)o.a) fnSeen = true;
                if ((o.c & 1) && fnSeen && !dupKey) {                     // an ignore-other-parameters expectation is the only *class* of its function: repeat the same one
                    bool found = false; for (size_t k = 0; k < G.ops.size(); k++) if (G.ops[k].kind == M_EXPECT && G.ops[k].a == o.a && (G.ops[k].c & 1)) { vals = parseIdx(G.ops[k].s); o.d = G.ops[k].d; o.c = G.ops[k].c; found = true; break; }
                    if (!found) continue;
                    keyVals = vals; keyVals.pop_back(); key = sfmt("%d|%d|%d|%d|", (int)o.a, (int)o.d, (int)(o.c & 2), (int)(o.c & 4)) + joinIdx(keyVals); dupKey = true;
                }
                if (o.b == 0 && fnSeen) continue;                         // expectNoCall only for functions that are otherwise unexpected
                if (dupKey && strict) continue;
                if (dupKey) { /* the same class again: multiplicities add up */ }
                if (o.b == 0) { o.d = 0; if (w.chance(1, 2)) o.c |= 8; }       // expectNoCall, or expectNCalls(0, name) with the parameters chained on it
                classes.push_back(key);
                o.s = joinIdx(vals); o.s2 = sfmt("%d", (int)w.below(8));
                if (dupKey) for (size_t k = 0; k < G.ops.size(); k++) if (G.ops[k].kind == M_EXPECT && G.ops[k].a == o.a && G.ops[k].d == o.d && G.ops[k].s == o.s) o.s2 = G.ops[k].s2;   // one class, one return value
                G.ops.push_back(o); totalCalls += (int)o.b;
            }
            // the matching calls, spread over caller tasks (strict order: one task, expectation order)
            int nTasks = strict ? 1 : (int)w.range(1, 4);
            Vec<Op> calls;
            for (size_t k = 0; k < G.ops.size(); k++) if (G.ops[k].kind == M_EXPECT) for (int n = 0; n < (int)G.ops[k].b; n++) {
                Op c; c.kind = M_CALL; c.a = G.ops[k].a; c.d = G.ops[k].d; c.s = G.ops[k].s; c.phase = (int)w.below((uint64_t)nTasks); c.b = ((G.ops[k].c & 2) ? 1 : 0) | ((G.ops[k].c & 4) ? 2 : 0); if (!cfront && ignoreOther && w.chance(1, 3)) c.b |= 4; if (cfront && w.chance(1, 8)) c.b |= 8; if (w.chance(1, 4)) c.b |= 16;      // 4: while this call (if it is made on the named scope) is still collecting its parameters, the root mock gets a call of its own (one it ignores)
                if (cfront && w.chance(1, 6)) c.c = w.range(1, 24);
                if (G.ops[k].c & 1) { Vec<int> v = parseIdx(c.s); if (!v.empty()) v.back() = (int)w.below(7); c.s = joinIdx(v); }   // the ignored parameter may carry anything
                calls.push_back(c);
            }
            if (!strict) for (size_t k = calls.size(); k > 1; k--) std::swap(calls[k - 1], calls[w.below(k)]);
            // one deviation, attached to a call
            if (!faultFree && f.chance(2, 3)) {
                unsigned x = (unsigned)f.below(100);
                if (calls.empty() || x < 8) { Op c; c.kind = M_CALL; c.a = 0; c.s2 = "extra"; c.phase = 0; calls.insert(calls.begin() + (long)f.below(calls.size() + 1), c); }
                else {
                    size_t at = (size_t)f.below(calls.size()); Op& c = calls[at]; const Fn& F = FNS[c.a];
                    bool ign = false; for (size_t k = 0; k < G.ops.size(); k++) if (G.ops[k].kind == M_EXPECT && G.ops[k].a == c.a && (G.ops[k].c & 1)) ign = true;
                    if (x < 25) c.s2 = "drop";
                    else if (x < 38) c.s2 = "dup";
                    else if (x < 42) { int kk = -1; for (int z = 0; z < F.np; z++) if (F.p[z].ty == T_INT || F.p[z].ty == T_UINT) kk = z; bool ig = false; for (size_t q = 0; q < G.ops.size(); q++) if (G.ops[q].kind == M_EXPECT && G.ops[q].a == c.a && (G.ops[q].c & 5)) ig = true; if (kk >= 0 && !ig) c.s2 = sfmt(f.chance(1, 2) ? "retype:%d" : "wrap:%d", kk); else c.s2 = "dup"; }
                    else if (x < 58 && F.np > 0 && !ign) { int k = (int)f.below((uint64_t)F.np); if (F.p[k].ty != T_BOOL && F.p[k].ty != T_FPTR) { c.s2 = sfmt("value:%d", k); Vec<int> v = parseIdx(c.s); v[(size_t)k] = 7; c.s = joinIdx(v); } else c.s2 = "drop"; }
                    else if (x < 68 && F.np > 0 && !ign) {
                        int k = (int)f.below((uint64_t)F.np); c.s2 = sfmt("rename:%d", k);
                        if (f.chance(1, 2)) {      // borrow the name from another function that has expectations here
                            Vec<const char*> cand;
                            for (int q = 0; q < nFn; q++) if (fns[q] != (int)c.a) { const Fn& O = FNS[fns[q]]; for (int z = 0; z < O.np; z++) { bool own = false; for (int y = 0; y < F.np; y++) if (!strcmp(F.p[y].name, O.p[z].name)) own = true; if (!own) cand.push_back(O.p[z].name); } }
                            if (!cand.empty()) c.s2 = sfmt("borrow:%d:%s", k, cand[f.below(cand.size())]);
                        }
                    }
                    else if (x < 80 && F.np > 0 && !ign) c.s2 = sfmt("omit:%d", (int)f.below((uint64_t)F.np));
                    else if (x < 88 && c.d) c.s2 = "object";
                    else if (x < 94 && c.d) c.s2 = "noobject";
                    else if (strict && calls.size() >= 2) { size_t b2 = at + 1 < calls.size() ? at + 1 : at - 1; if (calls[at].a != calls[b2].a || calls[at].s != calls[b2].s) { std::swap(calls[at], calls[b2]); calls[at].s2 = "swap"; } else c.s2 = "drop"; }
                    else c.s2 = "drop";
                }
            }
            for (size_t k = 0; k < calls.size(); k++) G.ops.push_back(calls[k]);
            if (cfront && w.chance(1, 3)) { int nd = (int)w.range(1, 4); static const int dts[] = { T_BOOL, T_INT, T_UINT, T_STRING, T_DOUBLE, T_PTR, T_CPTR, T_FPTR, T_OBJ };
                for (int k = 0; k < nd; k++) { Op o; o.kind = M_DATA; o.a = dts[w.below(9)]; o.b = (int64_t)w.below(8); o.s = sfmt("key%d", (int)w.below(3)); G.ops.push_back(o); } }
            d.groups.push_back(G);
        }
    }

    // -------------------------------------------------------------------------------------------- model
    static void buildScenario(const Group& G, Scenario& sc) {
        sc.strict = G.arg(0) != 0; sc.ignoreOther = G.arg(1) != 0; sc.useScope = G.arg(2) != 0; sc.preFail = G.arg(3) != 0; sc.rounds = G.arg(4, 1) == 2 ? 2 : 1; sc.type2 = (int)G.arg(5); sc.tol = (int)(G.arg(6) & 3); sc.otherVal = G.arg(7) != 0; sc.crashOn = G.arg(8) != 0; sc.nestedCmp = G.arg(9) != 0; sc.unmodOut = G.arg(10) != 0; sc.scopeCopier = G.arg(11) != 0; sc.leaveDisabled = G.arg(12) != 0;
        for (size_t i = 0; i < G.ops.size(); i++) {
            const Op& o = G.ops[i];
            if (o.kind == M_EXPECT) { ExpPlan e; e.fn = (int)(o.a % N_FN); e.count = (int)o.b; e.flags = (int)o.c; e.obj = (int)o.d; e.vals = parseIdx(o.s); e.vals.resize((size_t)FNS[e.fn].np, 0); e.ret = atoi(o.s2.c_str()); e.scope = (e.flags & 2) ? 1 : 0; sc.exps.push_back(e); }
            else if (o.kind == M_CALL) {
                CallPlan c; c.fn = (int)(o.a % N_FN); c.obj = (int)o.d; c.vals = parseIdx(o.s); c.vals.resize((size_t)FNS[c.fn].np, 0); c.dev = o.s2; c.task = o.phase; c.extra = o.s2 == "extra"; c.scope = (o.b & 1) ? 1 : 0; c.shortForm = (o.b & 2) != 0; c.midRoot = (o.b & 4) != 0; c.midClear = (o.b & 8) != 0; c.outFirst = (o.b & 16) != 0; c.xget = (int)o.c;
                if (c.dev == "drop") continue;
                sc.calls.push_back(c);
                if (c.dev == "dup") { CallPlan c2 = c; c2.task = (c.task + 1) % 4; sc.calls.push_back(c2); }
            }
            else if (o.kind == M_DATA) sc.data.push_back(o);
        }
    }
    // Reference semantics, written from the property text. A call is described by what it concretely passes (after the injected
    // deviation); an expectation class by function, object and the parameter values it specifies.
    struct Cls { int fn, obj, scope; Vec<int> vals; int nSpec; bool ignoreOther; int capacity, total, ret; size_t firstExp; };
    struct Passed { Str name; int val; Ty ty; };
    static void concreteCall(const CallPlan& c, bool& hasObj, int& obj, Vec<Passed>& ps) {
        const Fn& F = FNS[c.fn]; ps.clear();
        hasObj = c.obj != 0 && c.dev != "noobject"; obj = c.dev == "object" ? otherObject(c.obj) : c.obj;
        for (int k = 0; k < F.np; k++) { if (c.dev == sfmt("omit:%d", k)) continue; Passed p; p.name = paramNameFor(F, k, c.dev); p.val = c.vals[(size_t)k] & 7; if (retypeMode(k, c.dev) == 2) p.val = 99; p.ty = F.p[k].ty; if (p.ty == T_BOOL) p.val &= 1; if (p.ty == T_FPTR) p.val &= 3; ps.push_back(p); }
    }
    static int specIndex(const Cls& c, const Str& name) { const Fn& F = FNS[c.fn]; for (int k = 0; k < c.nSpec; k++) if (name == F.p[k].name) return k; return -1; }
    static bool valueEq(Ty ty, int a, int b) { if (ty == T_BOOL) return (a & 1) == (b & 1); if (ty == T_FPTR) return (a & 3) == (b & 3); if (ty == T_OBJ && a == 5) return false; /* the custom type's value 5 equals nothing */ return a == b; }
    static bool buildClasses(const Scenario& sc, Vec<Cls>& cls) {
        // returns false when the scenario is outside the property's precondition (ambiguous matching)
        for (size_t i = 0; i < sc.exps.size(); i++) {
            const ExpPlan& e = sc.exps[i]; const Fn& F = FNS[e.fn];
            Cls c; c.fn = e.fn; c.scope = (sc.useScope || e.scope) ? 1 : 0; c.obj = e.count == 0 ? 0 : e.obj; c.vals = e.vals; c.ignoreOther = (e.flags & 1) != 0; c.nSpec = e.count == 0 ? 0 : specCount(F, e.flags);
            if (sc.strict && e.scope && !sc.useScope) return false;     // strict order is only generated for single-scope scenarios
            if (e.obj < 0 || e.obj > 4) return false;
            c.capacity = c.total = e.count; c.ret = e.ret & 7; c.firstExp = i;
            bool merged = false;
            for (size_t k = 0; k < cls.size() && !merged; k++) if (cls[k].fn == c.fn && cls[k].scope == c.scope && e.count > 0 && cls[k].total > 0) {
                bool same = cls[k].obj == c.obj && cls[k].ignoreOther == c.ignoreOther && cls[k].nSpec == c.nSpec;
                for (int q = 0; same && q < c.nSpec; q++) if (!valueEq(F.p[q].ty, cls[k].vals[(size_t)q], c.vals[(size_t)q])) same = false;
                if (same) { if (cls[k].ret != c.ret) return false; cls[k].capacity += c.capacity; cls[k].total += c.total; merged = true; }
            }
            if (!merged) cls.push_back(c);
        }
        for (size_t a = 0; a < cls.size(); a++) for (size_t b = a + 1; b < cls.size(); b++) if (cls[a].fn == cls[b].fn && cls[a].scope == cls[b].scope) {
            if (cls[a].ignoreOther || cls[b].ignoreOther) return false;          // an ignore-other-parameters expectation must be the only class of its function
            if (cls[a].total == 0 || cls[b].total == 0) return false;          // expectNoCall next to real expectations
            if ((cls[a].obj != 0) != (cls[b].obj != 0)) {                       // object / no-object mix: a call on the object relates to both
                bool differ = false; int common = cls[a].nSpec < cls[b].nSpec ? cls[a].nSpec : cls[b].nSpec;
                for (int q = 0; q < common; q++) if (!valueEq(FNS[cls[a].fn].p[q].ty, cls[a].vals[(size_t)q], cls[b].vals[(size_t)q])) differ = true;
                if (!differ && cls[a].nSpec == cls[b].nSpec) return false;      // same parameters: the call on the object matches both
                probe("object_and_no_object_expectations_on_one_function");
            }
        }
        return true;
    }
    struct Walk { bool pass; Set<Str> admissible; Vec<int> consumed; /* class index per call, -1 ignored */ };
    static void model(const Scenario& sc, const Vec<size_t>& order, Vec<Cls> cls, Walk& x) {
        x.pass = true; x.admissible.clear(); x.consumed.clear();
        Vec<int> seq;
        for (size_t i = 0; i < order.size(); i++) {
            const CallPlan& c = sc.calls[order[i]];
            int cscope = (sc.useScope || c.scope) ? 1 : 0;
            bool fnKnown = false; for (size_t k = 0; k < cls.size(); k++) if (cls[k].fn == c.fn && cls[k].scope == cscope && !c.extra) fnKnown = true;
            if (c.extra || !fnKnown) {
                if (sc.ignoreOther) { x.consumed.push_back(-1); continue; }
                x.pass = false; x.admissible.insert("unexpected_call"); return;
            }
            bool hasObj; int obj; Vec<Passed> ps; concreteCall(c, hasObj, obj, ps);
            if (c.shortForm && FNS[c.fn].np >= 1) { Vec<Passed> keep; for (size_t q = 0; q < ps.size(); q++) if (ps[q].name != paramNameFor(FNS[c.fn], FNS[c.fn].np - 1, c.dev)) keep.push_back(ps[q]); ps = keep; }
            // candidates: open classes of the function, pruned the way a reader of the call would
            Vec<size_t> cand; bool anyFulfilled = false;
            for (size_t k = 0; k < cls.size(); k++) if (cls[k].fn == c.fn && cls[k].scope == cscope) { if (cls[k].capacity > 0) cand.push_back(k); if (cls[k].capacity < cls[k].total) anyFulfilled = true; }
            // does the call equal a class that is merely used up? then "surplus call" is a fair name for whatever follows
            for (size_t k = 0; k < cls.size(); k++) if (cls[k].fn == c.fn && cls[k].scope == cscope && cls[k].capacity == 0 && cls[k].total > 0) {
                bool eq = (cls[k].obj == 0 || (hasObj && obj == cls[k].obj)) && (int)ps.size() >= cls[k].nSpec;
                for (size_t q = 0; eq && q < ps.size(); q++) { int si = specIndex(cls[k], ps[q].name); if (si < 0) { if (!cls[k].ignoreOther) eq = false; } else if (!valueEq(ps[q].ty, ps[q].val, cls[k].vals[(size_t)si])) eq = false; }
                if (eq) x.admissible.insert("additional_call");
            }
            if (cand.empty()) { x.pass = false; x.admissible.insert(anyFulfilled ? "additional_call" : "unexpected_call"); return; }
            if (hasObj) { Vec<size_t> n; for (size_t k = 0; k < cand.size(); k++) if (cls[cand[k]].obj == 0 || cls[cand[k]].obj == obj) n.push_back(cand[k]); if (n.empty()) { x.pass = false; x.admissible.insert("unexpected_object"); return; } cand = n; }
            for (size_t q = 0; q < ps.size(); q++) {
                Vec<size_t> n; bool nameKnown = false;
                for (size_t k = 0; k < cand.size(); k++) { int si = specIndex(cls[cand[k]], ps[q].name); if (si >= 0) { nameKnown = true; if (valueEq(ps[q].ty, ps[q].val, cls[cand[k]].vals[(size_t)si])) n.push_back(cand[k]); } else if (cls[cand[k]].ignoreOther) { nameKnown = true; n.push_back(cand[k]); } }
                if (n.empty()) {
                    // a name is 'unexpected' only if no expectation of this function (used up or not) has such a parameter
                    for (size_t k = 0; k < cls.size(); k++) if (cls[k].fn == c.fn && cls[k].scope == cscope && (specIndex(cls[k], ps[q].name) >= 0 || cls[k].ignoreOther)) nameKnown = true;
                    x.pass = false; x.admissible.insert(nameKnown ? "parameter_value" : "parameter_name"); return; }
                cand = n;
            }
            int hit = -1;
            for (size_t k = 0; k < cand.size() && hit < 0; k++) {
                const Cls& C = cls[cand[k]]; bool full = C.obj == 0 || hasObj;
                for (int si = 0; full && si < C.nSpec; si++) { bool passed = false; for (size_t q = 0; q < ps.size(); q++) if (ps[q].name == FNS[C.fn].p[si].name) passed = true; if (!passed) full = false; }
                if (full) hit = (int)cand[k];
            }
            if (hit < 0) {
                x.pass = false;
                for (size_t k = 0; k < cand.size(); k++) { const Cls& C = cls[cand[k]]; bool missingParam = false; for (int si = 0; si < C.nSpec; si++) { bool passed = false; for (size_t q = 0; q < ps.size(); q++) if (ps[q].name == FNS[C.fn].p[si].name) passed = true; if (!passed) missingParam = true; }
                    if (missingParam) x.admissible.insert("parameter_missing"); else if (C.obj && !hasObj) x.admissible.insert("object_missing"); }
                return;
            }
            cls[(size_t)hit].capacity--; x.consumed.push_back(hit); seq.push_back(hit);
            x.admissible.clear();
        }
        x.admissible.clear();
        for (size_t k = 0; k < cls.size(); k++) if (cls[k].capacity > 0) { x.pass = false; x.admissible.insert("not_fulfilled"); }
        if (x.pass && sc.strict) {
            Vec<int> want; for (size_t i = 0; i < sc.exps.size(); i++) for (int n = 0; n < sc.exps[i].count; n++) { for (size_t k = 0; k < cls.size(); k++) if (cls[k].firstExp == i) want.push_back((int)k); }
            if (want != seq) { x.pass = false; x.admissible.insert("out_of_order"); }
        }
    }

    // -------------------------------------------------------------------------------------------- execution
    void runOnce(const Vec<Scenario>& scs, const Vec<Vec<size_t> >& orders, Front& front, Vec<Outcome>& outs, Vec<Vec<std::pair<Str, Str> > >& failsPerTest) {
        TestRegistry reg; TestRegistry* saved = TestRegistry::getCurrentRegistry(); reg.setCurrentRegistry(&reg);
        outs.assign(scs.size(), Outcome()); g_tests.clear();
        Vec<ScenarioShell*> shells; Vec<Str> names;
        for (size_t i = 0; i < scs.size(); i++) names.push_back(sfmt("scenario%zu", i));
        for (size_t i = 0; i < scs.size(); i++) { TestCtx t; t.sc = &scs[i]; t.front = &front; t.out = &outs[i]; t.order = &orders[i]; g_tests.push_back(t); }
        for (size_t i = 0; i < scs.size(); i++) shells.push_back(new (::malloc(sizeof(ScenarioShell))) ScenarioShell(names[i].c_str(), (int)i));
        for (size_t i = shells.size(); i-- > 0;) reg.addTest(shells[i]);
        MockSupportPlugin plugin; if (!g_noPlugin) reg.installPlugin(&plugin);
        RecOutput out; TestResult res(out);
        UtestShell::setRethrowExceptions(false);
        UtestShell::setCrashMethod(countCrashRequest);
        reg.runAllTests(res);
        UtestShell::resetCrashMethod(); mock().crashOnFailure(false); mock_c()->crashOnFailure(0); g_nestedCmp = false;
        reg.resetPlugins();
        mock().clear(); mock().enable(); mock().removeAllComparatorsAndCopiers();      // (every run of a worker starts from a mock that is switched on, whatever the run before left)
        saved->setCurrentRegistry(0);
        failsPerTest.assign(scs.size(), Vec<std::pair<Str, Str> >());
        for (size_t i = 0; i < out.fails.size(); i++) for (size_t t = 0; t < names.size(); t++) if (out.fails[i].first == names[t]) failsPerTest[t].push_back(out.fails[i]);
        for (size_t t = 0; t < scs.size(); t++) { outs[t].failures = failsPerTest[t].size(); if (!failsPerTest[t].empty()) outs[t].firstFailure = failsPerTest[t][0].second; }
        for (size_t i = 0; i < shells.size(); i++) { shells[i]->~ScenarioShell(); ::free(shells[i]); }
    }

    static void makeOrder(const Scenario& sc, uint64_t seed, int k, Vec<size_t>& order) {
        // schedule k of the caller tasks: k == 0 is the listed order; others interleave the tasks at random, keeping each task's own order
        order.clear();
        if (k == 0 || sc.strict) { for (size_t i = 0; i < sc.calls.size(); i++) order.push_back(i); return; }
        Vec<Vec<size_t> > q(4);
        for (size_t i = 0; i < sc.calls.size(); i++) q[(size_t)sc.calls[i].task % 4].push_back(i);
        size_t pos[4] = { 0, 0, 0, 0 }; Rng r(mix64(seed, 1000 + (uint64_t)k));
        while (order.size() < sc.calls.size()) { size_t t = (size_t)r.below(4); if (pos[t] < q[t].size()) order.push_back(q[t][pos[t]++]); }
    }

    void execute(const Desc& d, RunResult& r) {
        Hash h;
        Vec<Scenario> scs;
        for (size_t g = 0; g < d.groups.size(); g++) if (d.groups[g].tag == "scenario") { Scenario sc; buildScenario(d.groups[g], sc); scs.push_back(sc); }
        if (scs.empty()) { r.hash = h.h; return; }
        bool cfront = d.profile == "cfront";
        g_noPlugin = d.pi("no_plugin", 0) != 0; if (g_noPlugin) fired("tests_without_the_mock_plugin");
        int nSched = (int)d.pi("schedules", 2); if (nSched < 1) nSched = 1;
        CppFront cpp; CFront cfr;
        for (int k = 0; k < nSched && !r.hasWanted(); k++) {
            Vec<Vec<size_t> > orders(scs.size());
            for (size_t i = 0; i < scs.size(); i++) makeOrder(scs[i], mix64(d.seed, i), k, orders[i]);
            Vec<Outcome> outs; Vec<Vec<std::pair<Str, Str> > > fails;
            runOnce(scs, orders, cpp, outs, fails);
            for (size_t i = 0; i < scs.size(); i++) {
                Vec<Cls> cls;
                if (scs[i].scopeCopier || scs[i].unmodOut || scs[i].type2 == 2) { h.u64(outs[i].failures); continue; }      // (features of the C-versus-C++ comparison only: the reference matcher does not model a missing copier or an unmodified output parameter)
                if (scs[i].preFail) {      // the test failed on its own; the mock check in its teardown (and the plugin's) must not fail it a second time
                    probe("scenario_fails_before_mock_check");
                    if (outs[i].failures != 1) r.fail("C08", "fails_once", sg("what", outs[i].failures > 1 ? "a test that had already failed was failed again by the mock check" : "the test's own failure was lost"), sfmt("scenario %zu schedule %d: %zu failures recorded", i, k, outs[i].failures));
                    continue;
                }
                if (scs[i].rounds > 1) { probe("scenario_two_rounds_with_clear"); continue; }
                { bool xg = false; for (size_t q = 0; q < scs[i].calls.size(); q++) if (scs[i].calls[q].xget) xg = true; if (scs[i].type2 || scs[i].tol || scs[i].otherVal) xg = true; if (xg) { probe("scenario_reads_through_other_getter"); continue; } }
                if (!buildClasses(scs[i], cls)) { probe("scenario_outside_precondition"); continue; }
                Walk x; model(scs[i], orders[i], cls, x);
                bool passed = outs[i].failures == 0;
                h.u64(outs[i].failures); h.str(noAddrs(firstLine(outs[i].firstFailure)).c_str()); for (size_t q = 0; q < outs[i].log.size(); q++) h.str(outs[i].log[q].c_str());
                if (!x.pass) r.nontrivial = true;
                probe(x.pass ? "scenario_passes" : "scenario_deviates");
                Str dev; for (size_t q = 0; q < scs[i].calls.size(); q++) if (!scs[i].calls[q].dev.empty()) dev = scs[i].calls[q].dev;
                const char* devKind = dev.empty() ? "none" : (dev.compare(0, 4, "omit") == 0 ? "omit" : (dev.compare(0, 5, "value") == 0 ? "value" : (dev.compare(0, 6, "rename") == 0 ? "rename" : (dev.compare(0, 6, "borrow") == 0 ? "borrow" : (dev.compare(0, 6, "retype") == 0 ? "retype" : (dev.compare(0, 4, "wrap") == 0 ? "wrap" : dev.c_str()))))));
                if (!x.pass) fired(devKind);
                if (passed != x.pass) {
                    Str adm; for (Set<Str>::iterator it = x.admissible.begin(); it != x.admissible.end(); ++it) adm += *it + " ";
                    r.fail("C08", "verdict", sg2("what", x.pass ? "fails although the calls match the expectations" : "passes although the calls deviate", "model", x.pass ? "pass" : adm.c_str()),
                           sfmt("scenario %zu schedule %d (%s%s, injected deviation: %s): %s; model: %s (%s). First failure: %s", i, k, scs[i].strict ? "strict " : "", scs[i].ignoreOther ? "ignoreOtherCalls" : "", devKind, passed ? "passed" : "failed", x.pass ? "pass" : "fail", adm.c_str(), Json::S(firstLine(outs[i].firstFailure)).dump().c_str()));
                    continue;
                }
                if (!x.pass) {
                    if (outs[i].failures != 1) r.fail("C08", "fails_once", sg("what", "more than one failure"), sfmt("scenario %zu schedule %d: %zu failures recorded", i, k, outs[i].failures));
                    const char* cat = categoryOf(firstLine(outs[i].firstFailure));
                    if (!x.admissible.count(cat)) { Str adm; for (Set<Str>::iterator it = x.admissible.begin(); it != x.admissible.end(); ++it) adm += *it + " "; r.fail("C08", "diagnosis", sg2("got", cat, "want", adm.c_str()), sfmt("scenario %zu schedule %d: first line %s", i, k, Json::S(firstLine(outs[i].firstFailure)).dump().c_str())); }
                }
                // every completed call returned the value and output bytes of the expectation it consumed
                size_t li = scs[i].data.size();
                for (size_t q = 0; q < x.consumed.size() && li < outs[i].log.size(); q++, li++) {
                    if (x.consumed[q] < 0) continue;
                    const Cls& C = cls[(size_t)x.consumed[q]]; const Fn& F = FNS[C.fn]; const Str& line = outs[i].log[li]; int ret = C.ret;
                    if (getenv("MOCKSIM_DEBUG")) fprintf(stderr, "call ignoreOther=%d ret=%d: %s\n", (int)C.ignoreOther, ret, line.c_str());
                    Str want;
                    if (ret == 7) want = " has=0 ";
                    else switch (F.ret) {
                    case T_BOOL: want = sfmt(" def=%d v=%d ", ret & 1, ret & 1); break; case T_INT: want = sfmt(" def=%d v=%d ", 1000 + ret, 1000 + ret); break; case T_STRING: want = sfmt(" def=%s v=%s", strPool[ret], strPool[ret]); break;
                    case T_DOUBLE: want = sfmt(" def=%.6f v=%.6f ", dblPool[ret] + 0.125, dblPool[ret] + 0.125); break;
                    case T_PTR: case T_CPTR: want = sfmt(" def=%lx v=%lx ", (unsigned long)(uintptr_t)retPtr(ret), (unsigned long)(uintptr_t)retPtr(ret)); break;
                    case T_LL: want = sfmt(" def=%lld v=%lld ", (long long)longPool[ret], (long long)longPool[ret]); break; case T_ULONG: want = sfmt(" def=%lu v=%lu ", (unsigned long)ulongPool[ret], (unsigned long)ulongPool[ret]); break; default: want = " has=0 "; break;
                    }
                    if ((line + " ").find(want) == Str::npos) r.fail("C08", "returned_value", sg("type", tyNames[F.ret]), sfmt("scenario %zu schedule %d call %zu (%s): %s, expected to contain '%s'", i, k, q, F.name, line.c_str(), want.c_str()));
                    if (want != " has=0 " && line.compare(0, strlen(F.name) + 7, Str(F.name) + " has=1 ") != 0) r.fail("C08", "returned_value", sg("type", "asked before anything else"), sfmt("scenario %zu schedule %d call %zu (%s): %s: the first thing the mocked function asks is whether there is a return value; the expectation it consumed has one", i, k, q, F.name, line.c_str()));
                    if (F.out) { Str wo = F.outTy == T_INT ? sfmt(" out=%d", 100 + ret) : sfmt(" out=MyType(%d)", ret); if (line.find(wo) == Str::npos) r.fail("C08", "output_bytes", sg("type", tyNames[F.outTy]), sfmt("scenario %zu call %zu (%s): %s, expected '%s'", i, q, F.name, line.c_str(), wo.c_str())); }
                }
            }
            if (cfront && !r.hasWanted()) {
                // the same scenarios, same schedules, through the C interface: everything observable must be identical
                Vec<Outcome> outsC; Vec<Vec<std::pair<Str, Str> > > failsC;
                runOnce(scs, orders, cfr, outsC, failsC);
                for (size_t i = 0; i < scs.size(); i++) {
                    if (scs[i].otherVal) {      // a value was read through the other mock support: every difference of such a scenario is filed under that one oracle (known finding)
                        bool diff = outs[i].failures != outsC[i].failures || outs[i].firstFailure != outsC[i].firstFailure || outs[i].otherVal.size() != outsC[i].otherVal.size();
                        for (size_t q = 0; !diff && q < outs[i].otherVal.size(); q++) if (outs[i].otherVal[q] != outsC[i].otherVal[q]) diff = true;
                        if (diff) r.fail("C19", "other_scope_return_value", sfmt("scenario %zu: the value read through the mock support that did not make the last call differs (or fails the test) between C++ and C: %zu / %zu failures; C++ %s | C %s", i, outs[i].failures, outsC[i].failures, Json::S(firstLine(outs[i].firstFailure)).dump().c_str(), Json::S(firstLine(outsC[i].firstFailure)).dump().c_str()));
                        probe("scenario_reads_value_through_other_support");
                        continue;
                    }
                    if (outs[i].crashes != outsC[i].crashes) r.fail("C19", "crash_on_failure", sfmt("scenario %zu (crashOnFailure %s): the crash method was asked for %zu times through C++ and %zu times through C", i, scs[i].crashOn ? "on" : "off", outs[i].crashes, outsC[i].crashes));
                    if (outs[i].failures != outsC[i].failures) { r.fail("C19", "verdict", sg("what", outs[i].failures < outsC[i].failures ? "C fails more" : "C++ fails more"), sfmt("scenario %zu: %zu failures through C++, %zu through C; C++: %s | C: %s", i, outs[i].failures, outsC[i].failures, Json::S(firstLine(outs[i].firstFailure)).dump().c_str(), Json::S(firstLine(outsC[i].firstFailure)).dump().c_str())); continue; }
                    if (outs[i].firstFailure != outsC[i].firstFailure) r.fail("C19", "failure_text", sfmt("scenario %zu: C++ says %s, C says %s", i, Json::S(outs[i].firstFailure.substr(0, 300)).dump().c_str(), Json::S(outsC[i].firstFailure.substr(0, 300)).dump().c_str()));
                    if (outs[i].log.size() != outsC[i].log.size()) { r.fail("C19", "calls_completed", sfmt("scenario %zu: %zu calls completed through C++, %zu through C", i, outs[i].log.size(), outsC[i].log.size())); continue; }
                    for (size_t q = 0; q < outs[i].otherHas.size() && q < outsC[i].otherHas.size(); q++) if (outs[i].otherHas[q] != outsC[i].otherHas[q]) {
                        r.fail("C19", "other_scope_has_return_value", sfmt("scenario %zu call %zu: C++ [%s]  C [%s]", i, q, outs[i].otherHas[q].c_str(), outsC[i].otherHas[q].c_str())); break; }
                    for (size_t q = 0; q < outs[i].log.size(); q++) if (outs[i].log[q] != outsC[i].log[q]) {
                        Str fnn = outs[i].log[q].substr(0, outs[i].log[q].find(' '));
                        // (known finding C19-return-value-after-nested-call: a comparator that itself made a mock call through the C interface leaves the C interface's
                        //  file-static "current mock support" on its own scope; what the outer call then says about its return value is that scope's answer)
                        if (scs[i].nestedCmp) { r.fail("C19", "return_value_after_nested_call", sfmt("scenario %zu call %zu: C++ [%s]  C [%s]", i, q, outs[i].log[q].c_str(), outsC[i].log[q].c_str())); break; }
                        r.fail("C19", "returned_values", sg("fn", fnn.c_str()), sfmt("scenario %zu call %zu: C++ [%s]  C [%s]", i, q, outs[i].log[q].c_str(), outsC[i].log[q].c_str())); break;
                    }
                    h.u64(outsC[i].failures);
                }
            }
        }
        for (size_t i = 0; i < r.viols.size(); i++) h.str(r.viols[i].cls().c_str());
        r.hash = h.h;
    }
    bool opRemovable(const Group&, size_t) { return true; }
    void simplifications(const Desc& d, Vec<Desc>& out) {
        if (d.pi("schedules") > 1) { Desc c = d; c.p["schedules"] = 1; out.push_back(c); }
        for (size_t g = 0; g < d.groups.size(); g++) {
            for (size_t k = 0; k < 4; k++) if (d.groups[g].arg(k)) { Desc c = d; c.groups[g].args[k] = 0; out.push_back(c); }
            if (d.groups[g].arg(4, 1) == 2) { Desc c = d; c.groups[g].args[4] = 1; out.push_back(c); }
            for (size_t i = 0; i < d.groups[g].ops.size(); i++) { const Op& o = d.groups[g].ops[i]; if (o.kind == M_EXPECT && o.b > 1) { Desc c = d; c.groups[g].ops[i].b = o.b - 1; out.push_back(c); } if (o.kind == M_CALL && o.phase) { Desc c = d; c.groups[g].ops[i].phase = 0; out.push_back(c); } }
        }
    }
};
}  // namespace ms

int main(int argc, char** argv) { ms::Engine e; return vf::driverMain(argc, argv, e); }
