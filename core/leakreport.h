// Reading a leak report by its field labels, whatever the layout around them: an entry starts at "Alloc num (" and carries, somewhere before the
// next entry or the total, "Leak size: S", "Allocated at: F and line: L" and Type: "T". The total follows "Total number of leaks:".
// Whether entries were dropped is judged by counting (entries listed against the model's total), never by the wording of the notice;
// the wording of the notice itself is learned once per process from a report that must carry it (learnDroppedNotice).
#pragma once
#include "base.h"
#include <string.h>
#include <stdlib.h>

namespace vf {

struct LeakEntry { unsigned num; unsigned long size; Str file; long line; Str type; bool complete; };

inline void parseLeakReport(const Str& t, Vec<LeakEntry>& out, long& total) {
    out.clear(); total = -1;
    size_t tp = t.find("Total number of leaks:");
    if (tp != Str::npos) { const char* p = t.c_str() + tp + 22; while (*p == ' ' || *p == '\t') p++; if (*p >= '0' && *p <= '9') total = atol(p); }
    size_t pos = 0;
    while ((pos = t.find("Alloc num (", pos)) != Str::npos) {
        size_t end = t.find("Alloc num (", pos + 11); if (end == Str::npos || (tp != Str::npos && tp > pos && tp < end)) end = (tp != Str::npos && tp > pos) ? tp : t.size();
        Str c = t.substr(pos, end - pos);
        LeakEntry e; e.num = (unsigned)strtoul(c.c_str() + 11, 0, 10); e.size = 0; e.line = -1; e.complete = false;
        size_t ls = c.find("Leak size: "), at = c.find("Allocated at: "), ty = c.find("Type: \"");
        size_t al = at == Str::npos ? Str::npos : c.find(" and line: ", at);
        size_t te = ty == Str::npos ? Str::npos : c.find('"', ty + 7);
        if (ls != Str::npos) e.size = strtoul(c.c_str() + ls + 11, 0, 10);
        if (at != Str::npos && al != Str::npos) { e.file = c.substr(at + 14, al - at - 14); e.line = atol(c.c_str() + al + 11); }
        if (ty != Str::npos && te != Str::npos) e.type = c.substr(ty + 7, te - ty - 7);
        e.complete = ls != Str::npos && at != Str::npos && al != Str::npos && ty != Str::npos && te != Str::npos;
        out.push_back(e);
        pos += 11;
    }
}

// The line by which a report says that entries were dropped: every line of an overflowing report that is not part of an entry (those start with
// "Alloc num (", a tab or blanks, or are empty) and does not occur, digits aside, in a report that lists everything.
inline Str& droppedNotice() { static Str* s = new (::malloc(sizeof(Str))) Str(); return *s; }
inline Str digitsOut(const Str& l) { Str r; for (size_t i = 0; i < l.size(); i++) { bool dg = l[i] >= '0' && l[i] <= '9'; if (dg && !r.empty() && r[r.size() - 1] == '#') continue; r += dg ? '#' : l[i]; } return r; }      // a number of any length reads #
inline void learnDroppedNotice(const Str& small, const Str& big) {
    Vec<Str> known; size_t p = 0;
    while (p <= small.size()) { size_t q = small.find('\n', p); if (q == Str::npos) q = small.size(); known.push_back(digitsOut(small.substr(p, q - p))); p = q + 1; }
    p = 0; droppedNotice().clear();
    while (p <= big.size()) {
        size_t q = big.find('\n', p); if (q == Str::npos) q = big.size();
        Str l = big.substr(p, q - p); p = q + 1;
        if (l.empty() || l[0] == '\t' || l[0] == ' ' || l.compare(0, 11, "Alloc num (") == 0) continue;
        bool seen = false; Str n = digitsOut(l); for (size_t i = 0; i < known.size(); i++) if (known[i] == n) seen = true;
        if (!seen) { droppedNotice() = l; return; }
    }
}
inline bool saysEntriesWereDropped(const Str& report) { return !droppedNotice().empty() && report.find(droppedNotice()) != Str::npos; }

}  // namespace vf
