// core/base.h - allocation-neutral containers, PRNG, hash, JSON.
// Everything the harness allocates goes through glibc malloc directly so that it never appears in
// cpputest's leak detector (which replaces global operator new/delete).
#ifndef VERIF_BASE_H
#define VERIF_BASE_H
#include <cstdint>
#include <cstdlib>
#include <cstring>
#include <cstdio>
#include <cstdarg>
#include <cerrno>
#include <string>
#include <vector>
#include <map>
#include <set>
#include <new>

namespace vf {

template <class T> struct MAlloc {
    typedef T value_type;
    MAlloc() {}
    template <class U> MAlloc(const MAlloc<U>&) {}
    T* allocate(size_t n) {
        void* p = ::malloc(n * sizeof(T) ? n * sizeof(T) : 1);
        if (!p) { fprintf(stderr, "harness: out of memory\n"); _Exit(2); }
        return static_cast<T*>(p);
    }
    void deallocate(T* p, size_t) { ::free(p); }
    template <class U> bool operator==(const MAlloc<U>&) const { return true; }
    template <class U> bool operator!=(const MAlloc<U>&) const { return false; }
};

typedef std::basic_string<char, std::char_traits<char>, MAlloc<char> > Str;
template <class T> using Vec = std::vector<T, MAlloc<T> >;
template <class K, class V> using Map = std::map<K, V, std::less<K>, MAlloc<std::pair<const K, V> > >;
template <class K> using Set = std::set<K, std::less<K>, MAlloc<K> >;

inline Str sfmt(const char* f, ...) {
    char buf[4096];
    va_list ap; va_start(ap, f);
    int n = vsnprintf(buf, sizeof buf, f, ap);
    va_end(ap);
    if (n < 0) return Str();
    if ((size_t)n < sizeof buf) return Str(buf, (size_t)n);
    Str s((size_t)n + 1, '\0');
    va_start(ap, f); vsnprintf(&s[0], (size_t)n + 1, f, ap); va_end(ap);
    s.resize((size_t)n);
    return s;
}

// ---------------------------------------------------------------- PRNG
inline uint64_t splitmix64(uint64_t& x) {
    uint64_t z = (x += 0x9E3779B97F4A7C15ULL);
    z = (z ^ (z >> 30)) * 0xBF58476D1CE4E5B9ULL;
    z = (z ^ (z >> 27)) * 0x94D049BB133111EBULL;
    return z ^ (z >> 31);
}
inline uint64_t mix64(uint64_t a, uint64_t b) {
    uint64_t x = a ^ (b * 0x9E3779B97F4A7C15ULL + 0x632BE59BD9B4E019ULL);
    return splitmix64(x);
}
inline uint64_t strhash(const char* s) {
    uint64_t h = 1469598103934665603ULL;
    for (; *s; ++s) { h ^= (unsigned char)*s; h *= 1099511628211ULL; }
    return h;
}

struct Rng {  // xoshiro256**
    uint64_t s[4];
    explicit Rng(uint64_t seed = 1) { reseed(seed); }
    void reseed(uint64_t seed) { uint64_t x = seed; for (int i = 0; i < 4; i++) s[i] = splitmix64(x); }
    static uint64_t rotl(uint64_t x, int k) { return (x << k) | (x >> (64 - k)); }
    uint64_t next() {
        uint64_t r = rotl(s[1] * 5, 7) * 9, t = s[1] << 17;
        s[2] ^= s[0]; s[3] ^= s[1]; s[1] ^= s[2]; s[0] ^= s[3]; s[2] ^= t; s[3] = rotl(s[3], 45);
        return r;
    }
    uint64_t below(uint64_t n) { return n ? next() % n : 0; }          // [0,n)
    int64_t range(int64_t lo, int64_t hi) { return lo + (int64_t)below((uint64_t)(hi - lo + 1)); }  // [lo,hi]
    bool chance(unsigned num, unsigned den) { return below(den) < num; }
    // heavy-tailed size in [lo,hi]: mostly small
    int64_t small(int64_t lo, int64_t hi) {
        int64_t span = hi - lo; if (span <= 0) return lo;
        uint64_t r = next();
        int sh = (int)(r & 7); r >>= 3;
        int64_t cap = span >> (sh > 5 ? 0 : (5 - sh)); if (cap < 1) cap = 1; if (cap > span) cap = span;
        return lo + (int64_t)(r % (uint64_t)(cap + 1));
    }
    template <class T> const T& pick(const Vec<T>& v) { return v[below(v.size())]; }
};

// ---------------------------------------------------------------- event-log hash
struct Hash {
    uint64_t h;
    Hash() : h(1469598103934665603ULL) {}
    void byte(unsigned char c) { h ^= c; h *= 1099511628211ULL; }
    void u64(uint64_t v) { for (int i = 0; i < 8; i++) byte((unsigned char)(v >> (8 * i))); }
    void str(const char* s) { for (; *s; ++s) byte((unsigned char)*s); byte(0); }
    void bytes(const void* p, size_t n) { const unsigned char* c = (const unsigned char*)p; for (size_t i = 0; i < n; i++) byte(c[i]); }
    void ev(const char* tag) { str(tag); }
    void ev(const char* tag, uint64_t a) { str(tag); u64(a); }
    void ev(const char* tag, uint64_t a, uint64_t b) { str(tag); u64(a); u64(b); }
    void ev(const char* tag, uint64_t a, uint64_t b, uint64_t c) { str(tag); u64(a); u64(b); u64(c); }
};

// ---------------------------------------------------------------- JSON
struct Json {
    enum Kind { Null, Bool, Int, Dbl, String, Array, Object } kind;
    bool b; int64_t i; double d; Str s;
    Vec<Json> arr;
    Vec<std::pair<Str, Json> > obj;   // insertion ordered
    Json() : kind(Null), b(false), i(0), d(0) {}
    static Json I(int64_t v) { Json j; j.kind = Int; j.i = v; return j; }
    static Json U(uint64_t v) { Json j; j.kind = Int; j.i = (int64_t)v; return j; }
    static Json B(bool v) { Json j; j.kind = Bool; j.b = v; return j; }
    static Json D(double v) { Json j; j.kind = Dbl; j.d = v; return j; }
    static Json S(const Str& v) { Json j; j.kind = String; j.s = v; return j; }
    static Json S(const char* v) { Json j; j.kind = String; j.s = v; return j; }
    static Json A() { Json j; j.kind = Array; return j; }
    static Json O() { Json j; j.kind = Object; return j; }
    Json& add(const Json& v) { arr.push_back(v); return *this; }
    Json& set(const char* k, const Json& v) {
        for (size_t n = 0; n < obj.size(); n++) if (obj[n].first == k) { obj[n].second = v; return *this; }
        obj.push_back(std::make_pair(Str(k), v)); return *this;
    }
    const Json* get(const char* k) const {
        for (size_t n = 0; n < obj.size(); n++) if (obj[n].first == k) return &obj[n].second;
        return 0;
    }
    int64_t geti(const char* k, int64_t def = 0) const { const Json* j = get(k); return j && (j->kind == Int || j->kind == Bool) ? (j->kind == Int ? j->i : (int64_t)j->b) : def; }
    Str gets(const char* k, const char* def = "") const { const Json* j = get(k); return j && j->kind == String ? j->s : Str(def); }

    static void escape(const Str& in, Str& out) {
        out += '"';
        for (size_t n = 0; n < in.size(); n++) {
            unsigned char c = (unsigned char)in[n];
            if (c == '"') out += "\\\""; else if (c == '\\') out += "\\\\";
            else if (c == '\n') out += "\\n"; else if (c == '\r') out += "\\r"; else if (c == '\t') out += "\\t";
            else if (c < 0x20 || c >= 0x7f) { char b[8]; snprintf(b, sizeof b, "\\u%04x", c); out += b; }  // bytes as latin-1 code points
            else out += (char)c;
        }
        out += '"';
    }
    void dump(Str& out) const {
        switch (kind) {
        case Null: out += "null"; break;
        case Bool: out += b ? "true" : "false"; break;
        case Int: { char bf[32]; snprintf(bf, sizeof bf, "%lld", (long long)i); out += bf; break; }
        case Dbl: { char bf[40]; snprintf(bf, sizeof bf, "%.17g", d); out += bf; break; }
        case String: escape(s, out); break;
        case Array: out += '['; for (size_t n = 0; n < arr.size(); n++) { if (n) out += ','; arr[n].dump(out); } out += ']'; break;
        case Object: out += '{'; for (size_t n = 0; n < obj.size(); n++) { if (n) out += ','; escape(obj[n].first, out); out += ':'; obj[n].second.dump(out); } out += '}'; break;
        }
    }
    Str dump() const { Str o; dump(o); return o; }

    // ---- parser
    struct P { const char* p; const char* e; bool ok; };
    static void ws(P& x) { while (x.p < x.e && (*x.p == ' ' || *x.p == '\n' || *x.p == '\r' || *x.p == '\t')) x.p++; }
    static bool parseStr(P& x, Str& out) {
        if (x.p >= x.e || *x.p != '"') return false;
        x.p++;
        while (x.p < x.e && *x.p != '"') {
            if (*x.p == '\\') {
                x.p++; if (x.p >= x.e) return false;
                char c = *x.p++;
                if (c == 'n') out += '\n'; else if (c == 'r') out += '\r'; else if (c == 't') out += '\t';
                else if (c == 'b') out += '\b'; else if (c == 'f') out += '\f';
                else if (c == 'u') {
                    if (x.e - x.p < 4) return false;
                    char h[5] = { x.p[0], x.p[1], x.p[2], x.p[3], 0 }; x.p += 4;
                    unsigned v = (unsigned)strtoul(h, 0, 16);
                    if (v < 0x100) out += (char)v;               // we only ever emit latin-1 escapes
                    else { out += (char)(0xE0 | (v >> 12)); out += (char)(0x80 | ((v >> 6) & 0x3f)); out += (char)(0x80 | (v & 0x3f)); }
                } else out += c;
            } else out += *x.p++;
        }
        if (x.p >= x.e) return false;
        x.p++; return true;
    }
    static Json parseVal(P& x) {
        Json j; ws(x);
        if (x.p >= x.e) { x.ok = false; return j; }
        char c = *x.p;
        if (c == '{') {
            j.kind = Object; x.p++; ws(x);
            if (x.p < x.e && *x.p == '}') { x.p++; return j; }
            while (x.ok) {
                ws(x); Str k; if (!parseStr(x, k)) { x.ok = false; break; }
                ws(x); if (x.p >= x.e || *x.p != ':') { x.ok = false; break; } x.p++;
                Json v = parseVal(x); j.obj.push_back(std::make_pair(k, v));
                ws(x); if (x.p < x.e && *x.p == ',') { x.p++; continue; }
                if (x.p < x.e && *x.p == '}') { x.p++; break; }
                x.ok = false;
            }
        } else if (c == '[') {
            j.kind = Array; x.p++; ws(x);
            if (x.p < x.e && *x.p == ']') { x.p++; return j; }
            while (x.ok) {
                j.arr.push_back(parseVal(x));
                ws(x); if (x.p < x.e && *x.p == ',') { x.p++; continue; }
                if (x.p < x.e && *x.p == ']') { x.p++; break; }
                x.ok = false;
            }
        } else if (c == '"') { j.kind = String; if (!parseStr(x, j.s)) x.ok = false; }
        else if (c == 't' && x.e - x.p >= 4 && !strncmp(x.p, "true", 4)) { j.kind = Bool; j.b = true; x.p += 4; }
        else if (c == 'f' && x.e - x.p >= 5 && !strncmp(x.p, "false", 5)) { j.kind = Bool; j.b = false; x.p += 5; }
        else if (c == 'n' && x.e - x.p >= 4 && !strncmp(x.p, "null", 4)) { x.p += 4; }
        else {
            const char* s = x.p; bool isd = false;
            while (x.p < x.e && (strchr("+-0123456789.eE", *x.p))) { if (*x.p == '.' || *x.p == 'e' || *x.p == 'E') isd = true; x.p++; }
            if (s == x.p) { x.ok = false; return j; }
            Str t(s, (size_t)(x.p - s));
            if (isd) { j.kind = Dbl; j.d = strtod(t.c_str(), 0); }
            else { j.kind = Int; errno = 0; j.i = strtoll(t.c_str(), 0, 10); if (errno == ERANGE) j.i = (int64_t)strtoull(t.c_str(), 0, 10); }
        }
        return j;
    }
    static bool parse(const Str& text, Json& out) {
        P x; x.p = text.data(); x.e = text.data() + text.size(); x.ok = true;
        out = parseVal(x); ws(x);
        return x.ok && x.p == x.e;
    }
};

inline bool readFile(const char* path, Str& out) {
    FILE* f = fopen(path, "rb"); if (!f) return false;
    char buf[65536]; size_t n;
    while ((n = fread(buf, 1, sizeof buf, f)) > 0) out.append(buf, n);
    fclose(f); return true;
}
inline bool writeFile(const char* path, const Str& s) {
    FILE* f = fopen(path, "wb"); if (!f) return false;
    bool ok = fwrite(s.data(), 1, s.size(), f) == s.size();
    return fclose(f) == 0 && ok;
}

}  // namespace vf
#endif
