// core/seams.h - simulator-owned implementations of cpputest's PlatformSpecific* function pointers:
// clock, console stream, file layer, rand, setjmp/longjmp counting wrappers.
#ifndef VERIF_SEAMS_H
#define VERIF_SEAMS_H
#include <errno.h>
#include "base.h"
#include "CppUTest/TestHarness.h"
#include "CppUTest/PlatformSpecificFunctions.h"
#undef new
#undef malloc
#undef free
#undef calloc
#undef realloc
#undef strdup
#undef strndup

namespace vf {

// ------------------------------------------------------------------ clock
struct SimClock {
    uint64_t now;            // simulated milliseconds
    uint64_t reads;
    int64_t stepPerRead;     // ms added after every read (0 = stalled clock)
    char timeString[80];
    SimClock() : now(0), reads(0), stepPerRead(0) { timeString[0] = 0; }
    void reset(uint64_t start, int64_t step) { now = start; reads = 0; stepPerRead = step; }
    void advance(int64_t ms) { now = (uint64_t)((int64_t)now + ms); }
};
inline SimClock& simClock() { static SimClock c; return c; }
inline unsigned long simTimeInMillis() { SimClock& c = simClock(); unsigned long v = (unsigned long)c.now; c.reads++; c.now = (uint64_t)((int64_t)c.now + c.stepPerRead); return v; }
inline const char* simTimeString() {
    SimClock& c = simClock();
    uint64_t s = c.now / 1000;
    snprintf(c.timeString, sizeof c.timeString, "2026-01-%02uT%02u:%02u:%02u", (unsigned)(1 + (s / 86400) % 28), (unsigned)((s / 3600) % 24), (unsigned)((s / 60) % 60), (unsigned)(s % 60));
    return c.timeString;
}

// ------------------------------------------------------------------ console + files
struct SimFile { Str name; Str data; bool open; int opens, closes; uint64_t openSeq; SimFile() : open(false), opens(0), closes(0), openSeq(0) {} };
struct SimIO {
    Str console;                 // everything written to PlatformSpecificStdOut
    Vec<SimFile*> files;         // every fopen creates a new record (re-opening the same name too)
    uint64_t flushes, seq, writesAfterClose, badHandle;
    int errnoNoise;              // non-zero: every console write and flush leaves this value in errno (a successful call may change errno; a failing write does)
    void (*flushHook)();         // called on every PlatformSpecificFlush (runsim: a forked child hands its flushed console bytes to the parent)
    SimIO() : flushes(0), seq(0), writesAfterClose(0), badHandle(0), errnoNoise(0), flushHook(0) {}
    void reset() {
        console.clear();
        for (size_t i = 0; i < files.size(); i++) { files[i]->~SimFile(); ::free(files[i]); }
        files.clear(); flushes = 0; seq = 0; writesAfterClose = 0; badHandle = 0;
    }
};
inline SimIO& simIO() { static SimIO* io = new (::malloc(sizeof(SimIO))) SimIO(); return *io; }
static char simStdoutTag;   // address used as the stdout handle
inline PlatformSpecificFile simFOpen(const char* name, const char* mode) {
    SimIO& io = simIO();
    SimFile* f = new (::malloc(sizeof(SimFile))) SimFile();
    f->name = name; f->open = true; f->opens = 1; f->openSeq = ++io.seq;
    if (mode && mode[0] == 'a') for (size_t i = io.files.size(); i-- > 0;) if (io.files[i]->name == f->name) { f->data = io.files[i]->data; break; }   // append mode: the file keeps what an earlier open of the same name left
    io.files.push_back(f);
    return (PlatformSpecificFile)f;
}
inline void simFPuts(const char* s, PlatformSpecificFile file) {
    SimIO& io = simIO();
    if (file == (PlatformSpecificFile)&simStdoutTag) { io.console += s; if (io.errnoNoise) errno = io.errnoNoise; return; }
    for (size_t i = 0; i < io.files.size(); i++) if ((PlatformSpecificFile)io.files[i] == file) {
        if (!io.files[i]->open) io.writesAfterClose++;
        io.files[i]->data += s; return;
    }
    io.badHandle++;
}
inline void simFWrite(const char* data, size_t n, PlatformSpecificFile file) {      // the same for a counted write
    SimIO& io = simIO();
    if (file == (PlatformSpecificFile)&simStdoutTag) { io.console.append(data, n); if (io.errnoNoise) errno = io.errnoNoise; return; }
    for (size_t i = 0; i < io.files.size(); i++) if ((PlatformSpecificFile)io.files[i] == file) { if (!io.files[i]->open) io.writesAfterClose++; io.files[i]->data.append(data, n); return; }
    io.badHandle++;
}
inline void simFClose(PlatformSpecificFile file) {
    SimIO& io = simIO();
    for (size_t i = 0; i < io.files.size(); i++) if ((PlatformSpecificFile)io.files[i] == file) { io.files[i]->open = false; io.files[i]->closes++; return; }
    io.badHandle++;
}
inline void simFlush() { simIO().flushes++; if (simIO().flushHook) simIO().flushHook(); if (simIO().errnoNoise) errno = simIO().errnoNoise; }

// ------------------------------------------------------------------ rand
struct SimRand {
    int mode;        // 0 faithful libc srand/rand (private state via rand_r-like LCG is NOT libc; we call libc), 1 constant 0, 2 RAND_MAX, 3 alternating extremes, 4 arbitrary stream
    Rng rng; uint64_t calls, srands; unsigned lastSeed;
    SimRand() : mode(0), rng(1), calls(0), srands(0), lastSeed(0) {}
};
inline SimRand& simRand() { static SimRand r; return r; }
inline void simSrand(unsigned s) { SimRand& r = simRand(); r.srands++; r.lastSeed = s; if (r.mode == 0) srand(s); else r.rng.reseed(mix64(s, 77)); }
inline int simRandFn() {
    SimRand& r = simRand(); r.calls++;
    switch (r.mode) {
    case 0: return rand();
    case 1: return 0;
    case 2: return RAND_MAX;
    case 3: return (r.calls & 1) ? RAND_MAX : 0;
    default: return (int)(r.rng.next() % ((uint64_t)RAND_MAX + 1));
    }
}

// ------------------------------------------------------------------ setjmp / longjmp depth accounting (no hook needed)
struct SimJmp {
    int (*realSetJmp)(void (*)(void*), void*);
    void (*realLongJmp)(void);
    void (*realRestore)(void);
    long entered, returnedNormally, longjmps, restores;
    long maxDepth;
    SimJmp() : realSetJmp(0), realLongJmp(0), realRestore(0), entered(0), returnedNormally(0), longjmps(0), restores(0), maxDepth(0) {}
    long depth() const { return entered - returnedNormally - longjmps - restores; }
};
inline SimJmp& simJmp() { static SimJmp j; return j; }
inline int simSetJmp(void (*fn)(void*), void* data) {
    SimJmp& j = simJmp();
    j.entered++;
    if (j.depth() > j.maxDepth) j.maxDepth = j.depth();
    int r = j.realSetJmp(fn, data);
    if (r) j.returnedNormally++;
    return r;
}
inline void simLongJmp() { SimJmp& j = simJmp(); j.longjmps++; j.realLongJmp(); }
inline void simRestoreJumpBuffer() { SimJmp& j = simJmp(); j.restores++; j.realRestore(); }

struct SavedSeams {
    unsigned long (*timeMs)(); const char* (*timeStr)();
    PlatformSpecificFile (*fopen_)(const char*, const char*); void (*fputs_)(const char*, PlatformSpecificFile); void (*fclose_)(PlatformSpecificFile);
    void (*flush_)(); PlatformSpecificFile stdout_;
    void (*srand_)(unsigned); int (*rand_)();
};

inline void installBasicSeams(bool fileLayerAtLibc = false) {      // fileLayerAtLibc: the platform's own file functions stay in place; the engine wraps fopen/fputs/fclose/fflush at link time instead
    static bool done = false;
    if (done) return;
    done = true;
    GetPlatformSpecificTimeInMillis = simTimeInMillis;
    GetPlatformSpecificTimeString = simTimeString;
    if (!fileLayerAtLibc) {
        PlatformSpecificFOpen = simFOpen; PlatformSpecificFPuts = simFPuts; PlatformSpecificFClose = simFClose;
        PlatformSpecificFlush = simFlush; PlatformSpecificStdOut = (PlatformSpecificFile)&simStdoutTag;
    }
    PlatformSpecificSrand = simSrand; PlatformSpecificRand = simRandFn;
    SimJmp& j = simJmp();
    j.realSetJmp = PlatformSpecificSetJmp; j.realLongJmp = PlatformSpecificLongJmp; j.realRestore = PlatformSpecificRestoreJumpBuffer;
    PlatformSpecificSetJmp = simSetJmp; PlatformSpecificLongJmp = simLongJmp; PlatformSpecificRestoreJumpBuffer = simRestoreJumpBuffer;
}

}  // namespace vf

// ASan: classify sanitizer reports by exit code, no leak checking (the framework leaks by design on longjmp)
extern "C" __attribute__((used, visibility("default"))) const char* __asan_default_options();

#endif
