// Classify sanitizer reports by exit code; the framework leaks by design on longjmp paths, so no LSan.
extern "C" __attribute__((used, visibility("default"), noinline)) const char* __asan_default_options() {
    return "exitcode=77:detect_leaks=0:abort_on_error=0:allocator_may_return_null=1:detect_stack_use_after_return=0:handle_abort=0";
}
extern "C" __attribute__((used, visibility("default"), noinline)) const char* __ubsan_default_options() {
    return "halt_on_error=1:exitcode=77:print_stacktrace=1";
}
