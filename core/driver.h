// core/driver.h - engine interface, batch/replay/shrink driver, worker protocol.
#ifndef VERIF_DRIVER_H
#define VERIF_DRIVER_H
#include "desc.h"
#include <unistd.h>
#include <fcntl.h>
#include <signal.h>
#include <sys/wait.h>
#include <sys/stat.h>
#include <time.h>

namespace vf {

struct Violation {
    Str prop, oracle, detail;
    Json sig;            // stable, index-free description of *what kind* of thing failed (used for classes and known findings)
    Str cls() const { return prop + "|" + oracle + "|" + sig.dump(); }
    Json toJson() const { Json j = Json::O(); j.set("prop", Json::S(prop)); j.set("oracle", Json::S(oracle)); j.set("sig", sig); j.set("detail", Json::S(detail)); return j; }
};

inline bool propMatches(const Str& want, const Str& have) {      // want: empty (any) or a comma separated list of property ids
    if (want.empty()) return true;
    size_t p = 0;
    while (p <= want.size()) { size_t q = want.find(',', p); if (q == Str::npos) q = want.size(); if (want.compare(p, q - p, have) == 0) return true; p = q + 1; }
    return false;
}

// the properties the caller asked about (empty = all): a violation of another property is recorded but need not end the run
inline Str& wantedProps() { static Str w; return w; }
inline bool wantsProp(const char* prop) { return propMatches(wantedProps(), prop); }

struct RunResult {
    uint64_t hash;
    Vec<Violation> viols;
    bool nontrivial;
    int64_t sim_ms;
    RunResult() : hash(0), nontrivial(false), sim_ms(0) {}
    void fail(const char* prop, const char* oracle, const Json& sig, const Str& detail) {
        if (viols.size() >= 64) return;
        Violation v; v.prop = prop; v.oracle = oracle; v.sig = sig.kind == Json::Null ? Json::O() : sig; v.detail = detail.size() > 1500 ? detail.substr(0, 1500) + "..." : detail;
        viols.push_back(v);
    }
    void fail(const char* prop, const char* oracle, const Str& detail) { fail(prop, oracle, Json::O(), detail); }
    bool hasWanted() const { for (size_t i = 0; i < viols.size(); i++) if (wantsProp(viols[i].prop.c_str())) return true; return false; }
};

// process-wide counters: faults that actually fired, coverage probes
struct Counters {
    Map<Str, uint64_t> c;
    void inc(const char* k, uint64_t n = 1) { c[Str(k)] += n; }
    void inc(const Str& k, uint64_t n = 1) { c[k] += n; }
};
inline Counters& counters() { static Counters* c = new (malloc(sizeof(Counters))) Counters(); return *c; }
inline void fired(const char* kind, uint64_t n = 1) { counters().inc(Str("fault.") + kind, n); }
inline void probe(const char* name, uint64_t n = 1) { counters().inc(Str("probe.") + name, n); }

class Engine {
public:
    virtual ~Engine() {}
    virtual const char* name() const = 0;
    virtual const char* variant() const = 0;
    virtual KindNameFn kindName() const = 0;
    virtual KindFromNameFn kindFromName() const = 0;
    virtual void initProcess() {}
    virtual void generate(uint64_t seed, const Str& profile, Desc& d) = 0;
    virtual void execute(const Desc& d, RunResult& r) = 0;
    // engine specific simplifications of one description (argument shrinking etc.)
    virtual void simplifications(const Desc&, Vec<Desc>&) {}
    virtual bool opRemovable(const Group&, size_t) { return true; }
    virtual bool groupRemovable(const Desc&, size_t) { return true; }
    // scheduler decisions of the run just executed (engines with real interleavings): stored in the replay file so that it replays as data
    virtual void recordedSchedule(Vec<int64_t>&) {}
};

inline double nowSec() { struct timespec ts; clock_gettime(CLOCK_MONOTONIC, &ts); return (double)ts.tv_sec + (double)ts.tv_nsec * 1e-9; }

// ------------------------------------------------------------------------------------------------
// Evaluate one description in a forked child; returns the violation classes it produced or a crash class.
struct EvalOut { Vec<Str> classes; Str crash; uint64_t hash; };

inline void evalForked(Engine& e, const Desc& d, EvalOut& out, int timeoutSec = 20, bool quiet = true) {
    out = EvalOut(); out.hash = 0;
    int pfd[2]; if (pipe(pfd) != 0) { out.crash = "crash|pipe"; return; }
    fflush(stdout); fflush(stderr);
    pid_t pid = fork();
    if (pid < 0) { close(pfd[0]); close(pfd[1]); out.crash = "crash|fork"; return; }
    if (pid == 0) {
        close(pfd[0]);
        if (quiet) { int nul = open("/dev/null", O_WRONLY); if (nul >= 0) { dup2(nul, 2); dup2(nul, 1); } }
        signal(SIGALRM, SIG_DFL); alarm((unsigned)timeoutSec);
        RunResult r; e.execute(d, r);
        Str o = sfmt("H %llu\n", (unsigned long long)r.hash);
        for (size_t i = 0; i < r.viols.size(); i++) { o += "C "; o += r.viols[i].cls(); o += "\n"; }
        size_t off = 0; while (off < o.size()) { ssize_t w = write(pfd[1], o.data() + off, o.size() - off); if (w <= 0) break; off += (size_t)w; }
        _exit(0);
    }
    close(pfd[1]);
    Str buf; char tmp[4096]; ssize_t n;
    while ((n = read(pfd[0], tmp, sizeof tmp)) > 0 || (n < 0 && errno == EINTR)) if (n > 0) buf.append(tmp, (size_t)n);
    close(pfd[0]);
    int st = 0; while (waitpid(pid, &st, 0) < 0 && errno == EINTR) {}
    if (WIFSIGNALED(st)) { out.crash = WTERMSIG(st) == SIGALRM ? Str("crash|hang") : sfmt("crash|signal%d", WTERMSIG(st)); return; }
    if (WIFEXITED(st) && WEXITSTATUS(st) != 0) { out.crash = WEXITSTATUS(st) == 77 ? Str("crash|sanitizer") : sfmt("crash|exit%d", WEXITSTATUS(st)); return; }
    size_t pos = 0;
    while (pos < buf.size()) {
        size_t nl = buf.find('\n', pos); if (nl == Str::npos) nl = buf.size();
        Str line = buf.substr(pos, nl - pos); pos = nl + 1;
        if (line.size() > 2 && line[0] == 'H') out.hash = strtoull(line.c_str() + 2, 0, 10);
        else if (line.size() > 2 && line[0] == 'C') out.classes.push_back(line.substr(2));
    }
}

inline bool hasClass(const EvalOut& o, const Str& target) {
    if (target.compare(0, 6, "crash|") == 0) return o.crash == target;
    for (size_t i = 0; i < o.classes.size(); i++) if (o.classes[i] == target) return true;
    return false;
}

// Greedy ddmin-style shrinking: groups, then ops inside groups, then argv, then engine simplifications.
inline Desc shrinkDesc(Engine& e, const Desc& start, const Str& target, int budgetEvals, double budgetSec, int* evalsOut) {
    Desc cur = start; int evals = 0; double t0 = nowSec();
    #define VF_BUDGET_OK() (evals < budgetEvals && nowSec() - t0 < budgetSec)
    bool progress = true;
    while (progress && VF_BUDGET_OK()) {
        progress = false;
        // 1. remove chunks of groups
        for (size_t chunk = cur.groups.size() > 1 ? cur.groups.size() / 2 : 1; chunk >= 1 && VF_BUDGET_OK(); chunk /= 2) {
            for (size_t at = 0; at < cur.groups.size() && VF_BUDGET_OK();) {
                Desc c = cur; size_t removed = 0;
                for (size_t k = 0; k < chunk && at < c.groups.size(); k++) {
                    if (!e.groupRemovable(c, at)) break;
                    c.groups.erase(c.groups.begin() + (long)at); removed++;
                }
                if (!removed) { at++; continue; }
                EvalOut o; evalForked(e, c, o); evals++;
                if (hasClass(o, target)) { cur = c; progress = true; } else at += chunk;
            }
            if (chunk == 1) break;
        }
        // 2. remove chunks of ops inside each group
        for (size_t g = 0; g < cur.groups.size() && VF_BUDGET_OK(); g++) {
            for (size_t chunk = cur.groups[g].ops.size() > 1 ? cur.groups[g].ops.size() / 2 : 1; chunk >= 1 && VF_BUDGET_OK(); chunk /= 2) {
                for (size_t at = 0; at < cur.groups[g].ops.size() && VF_BUDGET_OK();) {
                    Desc c = cur; size_t removed = 0;
                    for (size_t k = 0; k < chunk && at < c.groups[g].ops.size(); k++) {
                        if (!e.opRemovable(c.groups[g], at)) break;
                        c.groups[g].ops.erase(c.groups[g].ops.begin() + (long)at); removed++;
                    }
                    if (!removed) { at++; continue; }
                    EvalOut o; evalForked(e, c, o); evals++;
                    if (hasClass(o, target)) { cur = c; progress = true; } else at += chunk;
                }
                if (chunk == 1) break;
            }
        }
        // 3. argv entries
        for (size_t at = 0; at < cur.argv.size() && VF_BUDGET_OK();) {
            Desc c = cur; c.argv.erase(c.argv.begin() + (long)at);
            EvalOut o; evalForked(e, c, o); evals++;
            if (hasClass(o, target)) { cur = c; progress = true; } else at++;
        }
        // 4. recorded schedule: drop tail halves
        while (cur.schedule.size() > 0 && VF_BUDGET_OK()) {
            Desc c = cur; c.schedule.resize(cur.schedule.size() / 2);
            EvalOut o; evalForked(e, c, o); evals++;
            if (hasClass(o, target)) { cur = c; progress = true; } else break;
        }
        // 5. engine specific simplifications (first accepted wins, then restart the list)
        bool again = true;
        while (again && VF_BUDGET_OK()) {
            again = false;
            Vec<Desc> cands; e.simplifications(cur, cands);
            for (size_t i = 0; i < cands.size() && VF_BUDGET_OK(); i++) {
                EvalOut o; evalForked(e, cands[i], o); evals++;
                if (hasClass(o, target)) { cur = cands[i]; progress = true; again = true; break; }
            }
        }
    }
    #undef VF_BUDGET_OK
    if (evalsOut) *evalsOut = evals;
    return cur;
}

// ------------------------------------------------------------------------------------------------
struct Args {
    Str mode, profile, prop, out, file, target;
    uint64_t seed; uint64_t start, count, stride; int worker; bool allHashes; int maxShrink; int64_t index; double timeCap;
    Args() : seed(1), start(0), count(1), stride(1), worker(0), allHashes(false), maxShrink(3), index(-1), timeCap(0) {}
};
inline bool parseArgs(int argc, char** argv, Args& a) {
    if (argc < 2) return false;
    a.mode = argv[1];
    for (int i = 2; i < argc; i++) {
        Str k = argv[i];
        #define VF_NEXT() (i + 1 < argc ? argv[++i] : "")
        if (k == "--profile") a.profile = VF_NEXT();
        else if (k == "--prop") a.prop = VF_NEXT();
        else if (k == "--out") a.out = VF_NEXT();
        else if (k == "--file") a.file = VF_NEXT();
        else if (k == "--target") a.target = VF_NEXT();
        else if (k == "--seed") a.seed = strtoull(VF_NEXT(), 0, 10);
        else if (k == "--start") a.start = strtoull(VF_NEXT(), 0, 10);
        else if (k == "--count") a.count = strtoull(VF_NEXT(), 0, 10);
        else if (k == "--stride") a.stride = strtoull(VF_NEXT(), 0, 10);
        else if (k == "--worker") a.worker = atoi(VF_NEXT());
        else if (k == "--index") a.index = atoll(VF_NEXT());
        else if (k == "--max-shrink") a.maxShrink = atoi(VF_NEXT());
        else if (k == "--time-cap") a.timeCap = atof(VF_NEXT());
        else if (k == "--all-hashes") a.allHashes = true;
        else { fprintf(stderr, "unknown argument %s\n", k.c_str()); return false; }
        #undef VF_NEXT
    }
    return true;
}

inline uint64_t runSeed(Engine& e, const Args& a, uint64_t i) {
    return mix64(mix64(mix64(a.seed, strhash(e.name())), strhash(a.profile.c_str())), i);
}


inline Json countersJson() {
    Json j = Json::O();
    for (Map<Str, uint64_t>::const_iterator it = counters().c.begin(); it != counters().c.end(); ++it) j.set(it->first.c_str(), Json::U(it->second));
    return j;
}

inline int driverMain(int argc, char** argv, Engine& e) {
    Args a;
    if (!parseArgs(argc, argv, a)) {
        fprintf(stderr, "usage: %s batch|replay|dump|shrink|one [--profile P --prop Cxx --seed S --start A --count N --stride K --worker W --out DIR --file F --target CLASS]\n", argv[0]);
        return 2;
    }
    setvbuf(stdout, 0, _IOLBF, 0);
    wantedProps() = a.prop;
    {   // a run must not depend on the signal dispositions and mask the caller happens to hand down (nohup, background jobs, SIGCHLD ignored)
        static const int sigs[] = { SIGHUP, SIGINT, SIGQUIT, SIGTERM, SIGPIPE, SIGALRM, SIGUSR1, SIGUSR2, SIGCHLD, SIGCONT, SIGTSTP, SIGTTIN, SIGTTOU, SIGVTALRM, SIGPROF, SIGURG, SIGWINCH, SIGIO, SIGXCPU, SIGXFSZ };
        for (size_t i = 0; i < sizeof sigs / sizeof sigs[0]; i++) signal(sigs[i], SIG_DFL);
        sigset_t none; sigemptyset(&none); sigprocmask(SIG_SETMASK, &none, 0);
    }
    if (a.mode == "dump") {      // a description is a pure function of the seed: written before anything of the library runs (a library that cannot even get through the engine's warm-up still gets its replay file)
        Desc d; d.engine = e.name(); d.profile = a.profile; d.variant = e.variant(); d.seed = runSeed(e, a, (uint64_t)a.index);
        e.generate(d.seed, a.profile, d);
        if (!a.file.empty()) writeFile(a.file.c_str(), descToJson(d, e.kindName()).dump());
        return 0;
    }
    e.initProcess();

    if (a.mode == "dump" || a.mode == "one") {            // description (and optionally execution) of run --index
        Desc d; d.engine = e.name(); d.profile = a.profile; d.variant = e.variant(); d.seed = runSeed(e, a, (uint64_t)a.index);
        e.generate(d.seed, a.profile, d);
        if (!a.file.empty()) writeFile(a.file.c_str(), descToJson(d, e.kindName()).dump());
        if (a.mode == "dump") return 0;
        RunResult r; e.execute(d, r);
        printf("END %lld %llu %zu\n", (long long)a.index, (unsigned long long)r.hash, r.viols.size());
        for (size_t i = 0; i < r.viols.size(); i++) printf("VIOL %s\n", r.viols[i].toJson().dump().c_str());
        return 0;
    }
    if (a.mode == "replay") {
        Str text; if (!readFile(a.file.c_str(), text)) { fprintf(stderr, "cannot read %s\n", a.file.c_str()); return 2; }
        Json j; Desc d;
        if (!Json::parse(text, j) || !descFromJson(j, d, e.kindFromName())) { fprintf(stderr, "cannot parse %s\n", a.file.c_str()); return 2; }
        RunResult r; e.execute(d, r);
        printf("HASH %llu\n", (unsigned long long)r.hash);
        int bad = 0;
        for (size_t i = 0; i < r.viols.size(); i++) {
            printf("VIOL %s\n", r.viols[i].toJson().dump().c_str());
            if (propMatches(a.prop, r.viols[i].prop)) bad++;
        }
        printf("COUNTERS %s\n", countersJson().dump().c_str());
        return bad ? 1 : 0;
    }
    if (a.mode == "shrink") {                             // shrink --file in --target class --out outfile (used for crashes)
        Str text; Json j; Desc d;
        if (!readFile(a.file.c_str(), text) || !Json::parse(text, j) || !descFromJson(j, d, e.kindFromName())) return 2;
        EvalOut o; evalForked(e, d, o);
        Str target = a.target.empty() ? (o.crash.empty() ? (o.classes.empty() ? Str() : o.classes[0]) : o.crash) : a.target;
        if (target.empty() || !hasClass(o, target)) { printf("NOREPRO %s\n", o.crash.c_str()); return 3; }
        int evals = 0; Desc m = shrinkDesc(e, d, target, 600, 120.0, &evals);
        writeFile(a.out.c_str(), descToJson(m, e.kindName()).dump());
        printf("SHRUNK %s evals=%d groups=%zu ops=%zu target=%s\n", a.out.c_str(), evals, m.groups.size(), m.opCount(), target.c_str());
        return 0;
    }
    if (a.mode != "batch") return 2;

    mkdir(a.out.c_str(), 0777);
    Str base = a.out + sfmt("/w%d", a.worker);
    int progFd = open((base + ".progress").c_str(), O_CREAT | O_WRONLY | O_TRUNC, 0666);
    FILE* hashF = fopen((base + ".hashes").c_str(), "wb");
    FILE* allF = a.allHashes ? fopen((base + ".allhashes").c_str(), "wb") : 0;
    uint64_t runs = 0, nontrivial = 0, reruns = 0, mismatches = 0, violRuns = 0; int64_t simMs = 0;
    Set<Str> shrunkClasses; Map<Str, uint64_t> classCounts;
    Json samples = Json::A();
    double t0 = nowSec();
    for (uint64_t n = 0; n < a.count; n++) {
        uint64_t i = a.start + n * a.stride;
        if (a.timeCap > 0 && nowSec() - t0 > a.timeCap) break;
        if (progFd >= 0) { int64_t v = (int64_t)i; if (pwrite(progFd, &v, sizeof v, 0) < 0) {} }
        Desc d; d.engine = e.name(); d.profile = a.profile; d.variant = e.variant(); d.seed = runSeed(e, a, i);
        e.generate(d.seed, a.profile, d);
        RunResult r; e.execute(d, r);
        runs++; simMs += r.sim_ms;
        if (r.nontrivial) { nontrivial++; if (hashF) fwrite(&r.hash, 8, 1, hashF); }
        if (allF) { uint64_t rec[2] = { i, r.hash }; fwrite(rec, 8, 2, allF); }
        if (samples.arr.size() < 2 && (n == 0 || (r.nontrivial && n > 3))) {
            Json s = Json::O(); s.set("index", Json::U(i)); s.set("desc", descToJson(d, e.kindName())); s.set("hash", Json::S(sfmt("%016llx", (unsigned long long)r.hash)));
            samples.add(s);
        }
        bool relevant = false;
        for (size_t v = 0; v < r.viols.size(); v++) if (propMatches(a.prop, r.viols[v].prop)) relevant = true;
        bool rerun = relevant || (n % 61 == 7);
        if (rerun) {                                       // determinism gate (a): same description, same worker, same hash and verdict
            RunResult r2; e.execute(d, r2); reruns++;
            bool same = r2.hash == r.hash && r2.viols.size() == r.viols.size();
            for (size_t v = 0; same && v < r.viols.size(); v++) same = r.viols[v].cls() == r2.viols[v].cls();
            if (!same) {
                mismatches++;
                Str f = base + sfmt("_nondet_i%llu.json", (unsigned long long)i);
                writeFile(f.c_str(), descToJson(d, e.kindName()).dump());
                printf("NONDET {\"index\":%llu,\"file\":\"%s\",\"h1\":\"%016llx\",\"h2\":\"%016llx\"}\n", (unsigned long long)i, f.c_str(), (unsigned long long)r.hash, (unsigned long long)r2.hash);
                continue;
            }
        }
        if (!relevant) {
            for (size_t v = 0; v < r.viols.size(); v++) classCounts[Str("other:") + r.viols[v].cls()]++;
            continue;
        }
        violRuns++;
        if (d.schedule.empty()) e.recordedSchedule(d.schedule);
        for (size_t v = 0; v < r.viols.size(); v++) {
            if (!propMatches(a.prop, r.viols[v].prop)) { classCounts[Str("other:") + r.viols[v].cls()]++; continue; }
            Str cls = r.viols[v].cls();
            classCounts[cls]++;
            if (shrunkClasses.count(cls)) continue;
            if ((int)shrunkClasses.size() >= a.maxShrink) continue;
            shrunkClasses.insert(cls);
            Str raw = base + sfmt("_i%llu_raw.json", (unsigned long long)i);
            writeFile(raw.c_str(), descToJson(d, e.kindName()).dump());
            int evals = 0; Desc m = d;
            EvalOut o; evalForked(e, d, o);
            bool forkRepro = hasClass(o, cls);
            if (forkRepro) m = shrinkDesc(e, d, cls, 400, 45.0, &evals);
            Str mf = base + sfmt("_i%llu_c%zu_min.json", (unsigned long long)i, shrunkClasses.size());
            writeFile(mf.c_str(), descToJson(m, e.kindName()).dump());
            Json jv = r.viols[v].toJson();
            jv.set("index", Json::U(i)); jv.set("raw", Json::S(raw)); jv.set("replay", Json::S(mf)); jv.set("fork_repro", Json::B(forkRepro));
            jv.set("shrink_evals", Json::I(evals)); jv.set("ops_before", Json::U(d.opCount())); jv.set("ops_after", Json::U(m.opCount()));
            jv.set("groups_before", Json::U(d.groups.size())); jv.set("groups_after", Json::U(m.groups.size())); jv.set("class", Json::S(cls));
            printf("VIOL %s\n", jv.dump().c_str());
        }
    }
    if (hashF) fclose(hashF);
    if (allF) fclose(allF);
    Json st = Json::O();
    st.set("worker", Json::I(a.worker)); st.set("runs", Json::U(runs)); st.set("nontrivial", Json::U(nontrivial)); st.set("sim_ms", Json::I(simMs));
    st.set("reruns", Json::U(reruns)); st.set("mismatches", Json::U(mismatches)); st.set("viol_runs", Json::U(violRuns)); st.set("wall_s", Json::D(nowSec() - t0));
    st.set("counters", countersJson());
    Json cc = Json::O(); for (Map<Str, uint64_t>::const_iterator it = classCounts.begin(); it != classCounts.end(); ++it) cc.set(it->first.c_str(), Json::U(it->second));
    st.set("classes", cc); st.set("samples", samples);
    writeFile((base + ".stats.json").c_str(), st.dump());
    printf("DONE %s\n", (base + ".stats.json").c_str());
    if (progFd >= 0) { int64_t v = -1; if (pwrite(progFd, &v, sizeof v, 0) < 0) {} close(progFd); }
    return 0;
}

}  // namespace vf
#endif
