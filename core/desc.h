// core/desc.h - the run description (world + configuration + fault plan + schedule). It is both what a
// seed expands to and what a replay file contains; shrinking operates on it as data.
#ifndef VERIF_DESC_H
#define VERIF_DESC_H
#include "base.h"

namespace vf {

struct Op {
    int kind;          // engine vocabulary
    int phase;         // engine specific (runsim: 0 setup, 1 body, 2 teardown; plugin: 3 pre, 4 post)
    int64_t a, b, c, d;
    Str s, s2;
    Op() : kind(0), phase(0), a(0), b(0), c(0), d(0) {}
    Op(int k, int ph = 0, int64_t a_ = 0, int64_t b_ = 0, int64_t c_ = 0, int64_t d_ = 0) : kind(k), phase(ph), a(a_), b(b_), c(c_), d(d_) {}
};

struct Group {       // a test, a thread, a caller task, a plugin, an expectation set ...
    Str tag;
    Vec<int64_t> args;
    Vec<Str> sargs;
    Vec<Op> ops;
    int64_t arg(size_t i, int64_t def = 0) const { return i < args.size() ? args[i] : def; }
    const char* sarg(size_t i) const { return i < sargs.size() ? sargs[i].c_str() : ""; }
};

struct Desc {
    Str engine, profile, variant;
    uint64_t seed;
    Map<Str, int64_t> p;     // integer parameters
    Map<Str, Str> sp;        // string parameters
    Vec<Str> argv;           // command line of the simulated run (without argv[0])
    Vec<Group> groups;
    Vec<int64_t> schedule;   // recorded / replayed scheduler decisions (empty = derive from seed)
    Desc() : seed(0) {}
    int64_t pi(const char* k, int64_t def = 0) const { Map<Str, int64_t>::const_iterator it = p.find(k); return it == p.end() ? def : it->second; }
    Str ps(const char* k, const char* def = "") const { Map<Str, Str>::const_iterator it = sp.find(k); return it == sp.end() ? Str(def) : it->second; }
    size_t opCount() const { size_t n = 0; for (size_t g = 0; g < groups.size(); g++) n += groups[g].ops.size(); return n; }
};

typedef const char* (*KindNameFn)(int);
typedef int (*KindFromNameFn)(const char*);

inline Json opToJson(const Op& o, KindNameFn kn) {
    Json j = Json::O();
    j.set("k", Json::S(kn(o.kind)));
    if (o.phase) j.set("ph", Json::I(o.phase));
    if (o.a) j.set("a", Json::I(o.a));
    if (o.b) j.set("b", Json::I(o.b));
    if (o.c) j.set("c", Json::I(o.c));
    if (o.d) j.set("d", Json::I(o.d));
    if (!o.s.empty()) j.set("s", Json::S(o.s));
    if (!o.s2.empty()) j.set("s2", Json::S(o.s2));
    return j;
}
inline Op opFromJson(const Json& j, KindFromNameFn kf) {
    Op o; o.kind = kf(j.gets("k").c_str()); o.phase = (int)j.geti("ph");
    o.a = j.geti("a"); o.b = j.geti("b"); o.c = j.geti("c"); o.d = j.geti("d");
    o.s = j.gets("s"); o.s2 = j.gets("s2");
    return o;
}
inline Json descToJson(const Desc& d, KindNameFn kn) {
    Json j = Json::O();
    j.set("engine", Json::S(d.engine)); j.set("profile", Json::S(d.profile)); j.set("variant", Json::S(d.variant));
    j.set("seed", Json::S(sfmt("%llu", (unsigned long long)d.seed)));
    Json p = Json::O(); for (Map<Str, int64_t>::const_iterator it = d.p.begin(); it != d.p.end(); ++it) p.set(it->first.c_str(), Json::I(it->second));
    j.set("p", p);
    Json sp = Json::O(); for (Map<Str, Str>::const_iterator it = d.sp.begin(); it != d.sp.end(); ++it) sp.set(it->first.c_str(), Json::S(it->second));
    j.set("sp", sp);
    Json av = Json::A(); for (size_t i = 0; i < d.argv.size(); i++) av.add(Json::S(d.argv[i]));
    j.set("argv", av);
    Json gs = Json::A();
    for (size_t g = 0; g < d.groups.size(); g++) {
        const Group& G = d.groups[g];
        Json jg = Json::O(); jg.set("tag", Json::S(G.tag));
        Json a = Json::A(); for (size_t i = 0; i < G.args.size(); i++) a.add(Json::I(G.args[i])); jg.set("args", a);
        Json sa = Json::A(); for (size_t i = 0; i < G.sargs.size(); i++) sa.add(Json::S(G.sargs[i])); jg.set("sargs", sa);
        Json ops = Json::A(); for (size_t i = 0; i < G.ops.size(); i++) ops.add(opToJson(G.ops[i], kn)); jg.set("ops", ops);
        gs.add(jg);
    }
    j.set("groups", gs);
    Json sc = Json::A(); for (size_t i = 0; i < d.schedule.size(); i++) sc.add(Json::I(d.schedule[i]));
    j.set("schedule", sc);
    return j;
}
inline bool descFromJson(const Json& j, Desc& d, KindFromNameFn kf) {
    if (j.kind != Json::Object) return false;
    d = Desc();
    d.engine = j.gets("engine"); d.profile = j.gets("profile"); d.variant = j.gets("variant");
    d.seed = strtoull(j.gets("seed", "0").c_str(), 0, 10);
    if (const Json* p = j.get("p")) for (size_t i = 0; i < p->obj.size(); i++) d.p[p->obj[i].first] = p->obj[i].second.i;
    if (const Json* p = j.get("sp")) for (size_t i = 0; i < p->obj.size(); i++) d.sp[p->obj[i].first] = p->obj[i].second.s;
    if (const Json* a = j.get("argv")) for (size_t i = 0; i < a->arr.size(); i++) d.argv.push_back(a->arr[i].s);
    if (const Json* gs = j.get("groups")) for (size_t g = 0; g < gs->arr.size(); g++) {
        const Json& jg = gs->arr[g]; Group G; G.tag = jg.gets("tag");
        if (const Json* a = jg.get("args")) for (size_t i = 0; i < a->arr.size(); i++) G.args.push_back(a->arr[i].i);
        if (const Json* a = jg.get("sargs")) for (size_t i = 0; i < a->arr.size(); i++) G.sargs.push_back(a->arr[i].s);
        if (const Json* a = jg.get("ops")) for (size_t i = 0; i < a->arr.size(); i++) G.ops.push_back(opFromJson(a->arr[i], kf));
        d.groups.push_back(G);
    }
    if (const Json* a = j.get("schedule")) for (size_t i = 0; i < a->arr.size(); i++) d.schedule.push_back(a->arr[i].i);
    return true;
}

}  // namespace vf
#endif
