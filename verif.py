#!/usr/bin/env python3
"""Orchestrator of the deterministic-simulation checks for cpputest (see DESIGN.md).

  verif.py check <Cxx> [--tier quick|thorough]   build engines from /repo's working tree, run the batches,
                                                 write evidence/<Cxx>.json; exit 0 held / 1 VIOLATION / 2 harness problem
  verif.py replay <file>                         re-run one replay file in a fresh process; exit 1 + VIOLATION line if it fails
  verif.py determinism <engine> <variant> <profile> [n]   large-sample determinism proof for one engine profile
  verif.py build                                 build everything (MANIFEST.setup_cmd)
"""
import sys, os, json, subprocess, time, shutil, hashlib, array, glob, signal

ROOT = os.path.dirname(os.path.abspath(__file__))
REPO = os.environ.get("VERIF_REPO", "/repo")
NPROC = int(os.environ.get("VERIF_WORKERS", str(min(16, os.cpu_count() or 4))))
BUILD = os.environ.get("VERIF_BUILD", os.path.join(ROOT, "build"))      # overridable so that self-tests can run against a scratch copy in isolation
OUT = os.environ.get("VERIF_OUT", ROOT)

# ---------------------------------------------------------------------------------------------------------------
# per property: list of batches (engine, variant, profile, quick runs, thorough runs)
PLANS = {
    "C01": [("runsim", "asan", "lifecycle", 60000, 1200000), ("runsim", "noexc", "lifecycle", 60000, 800000),
            ("runsim", "asan", "pointers", 10000, 200000), ("runsim", "asan", "leaks", 10000, 200000), ("runsim", "asan", "selection", 10000, 200000),
            ("runsim", "plain", "process", 12000, 200000, ("C11",))],
    "C02": [("runsim", "asan", "selection", 160000, 2000000), ("runsim", "asan", "lifecycle", 20000, 300000), ("runsim", "noexc", "selection", 40000, 300000)],
    # (engine, variant, profile, quick runs, thorough runs[, properties whose oracles, in this batch, are also violations of the checked property])
    "C04": [("heapsim", "asan", "accounting", 80000, 1200000), ("heapsim", "noguard", "accounting", 40000, 500000), ("heapsim", "asan", "misuse", 20000, 200000), ("heapsim", "asan", "soundness", 20000, 200000),
            ("runsim", "asan", "leaks", 30000, 300000, ("C07",)),
            ("thrsim", "tsi", "threads", 6000, 100000, ("C10",))],      # the outstanding set after several threads allocated and released under the thread-safe overloads: "exactly as if the operations had run one after another" is this property's set identity under interleavings
    "C05": [("heapsim", "asan", "soundness", 120000, 1500000), ("heapsim", "noguard", "soundness", 60000, 700000), ("heapsim", "asan", "accounting", 16000, 200000), ("heapsim", "asan", "oom", 16000, 200000),
            ("thrsim", "tsi", "threads", 6000, 100000, ("C10",)),      # the same allocation forms from several threads: a block that two threads were handed, or a table damaged by a race, is not a sound block
            ("heapsim", "asan", "misuse", 40000, 400000),      # blocks from new / new[] handed to realloc with type checking off, releases through every family: what reaches the platform's free must be an address the platform handed out
            ("thrsim", "tsi", "locked_misuse", 6000, 100000, ("C10",))],      # after a request the detector refused with a report (the test is left by a jump), every later tracked request of any thread still returns: one that waits for ever for the detector's lock neither returns a sound block nor fails cleanly
    "C06": [("heapsim", "asan", "misuse", 300000, 3000000), ("heapsim", "noguard", "misuse", 100000, 1000000), ("heapsim", "asan", "accounting", 20000, 200000, ("C04",)),
            ("heapsim", "asan", "soundness", 30000, 300000, ("C04",)),      # (C04 released_while_held counts here: a block whose memory went back to the platform while the detector still lists it cannot be released silently any more, and the history cannot safely go on to watch it try) after a request that failed (platform, allocator or bookkeeping node) the paired release of the old block is still silent
            ("heapsim", "asan", "oom", 60000, 600000, ("C04",)),
            ("thrsim", "tsi", "locked_misuse", 6000, 100000, ("C10",))],      # misuse committed by a real test through the global operators and the plugin's reporter (a second one in the teardown of the test that already failed): each is reported as a failure of that test      # paired releases and reallocations while out of memory is simulated or a failable allocator is installed: no report, and the block reaches the free seam
    "C07": [("runsim", "asan", "leaks", 80000, 1500000), ("runsim", "noexc", "leaks", 40000, 500000),
            ("runsim", "plain", "process", 8000, 150000, ("C11",))],      # leaking tests in forked children: the verdict must reach the parent
    "C08": [("mocksim", "asan", "verdict", 40000, 800000), ("mocksim", "asan", "cfront", 6000, 100000)],
    "C10": [("thrsim", "tsi", "threads", 16000, 400000), ("thrsim", "tsi", "locked_misuse", 16000, 300000)],
    "C11": [("runsim", "asan", "process_syn", 160000, 2000000), ("runsim", "plain", "process", 30000, 400000), ("runsim", "noexc", "process_syn", 40000, 400000)],
    "C14": [("heapsim", "asan", "diagnostics", 50000, 1000000), ("heapsim", "noguard", "diagnostics", 20000, 300000), ("heapsim", "asan", "accounting", 10000, 200000), ("runsim", "asan", "leaks", 16000, 300000),
            ("runsim", "asan", "lifecycle", 30000, 400000)],      # failing string comparisons whose operands print alike, hold control characters and bytes above 0x7f, are empty or long: the scans for the first difference under ASan, the position and the rendering
    "C15": [("heapsim", "asan", "oom", 600000, 6000000), ("heapsim", "noguard", "oom", 200000, 2000000)],
    "C16": [("runsim", "asan", "junit", 60000, 800000), ("runsim", "noexc", "junit", 30000, 200000)],
    "C17": [("runsim", "asan", "pointers", 80000, 1500000), ("runsim", "noexc", "pointers", 40000, 500000), ("runsim", "asan", "lifecycle", 20000, 300000)],
    "C18": [("cachesim", "asan", "cache", 1500000, 12000000), ("cachesim", "asan", "global", 600000, 6000000)],
    "C19": [("mocksim", "asan", "cfront", 48000, 800000)],
    "C20": [("runsim", "asan", "teamcity", 100000, 1200000), ("runsim", "noexc", "teamcity", 40000, 200000),
            ("runsim", "plain", "process", 8000, 150000, ("C11",))],      # TeamCity output over forked children: a test the parent closes too early shows up as a child event the parent never recorded
}
# properties whose statement contains a memory-safety / no-crash / no-hang clause: a crash class is attributed to them
HANG_CLAUSE = {"C05", "C10", "C11"}      # "returns ...", "never leaves the detector's lock held", "instead of hanging": a workload that never comes back is a violation of these
CRASH_CLAUSE = {"C01", "C05", "C10", "C11", "C14", "C15", "C17", "C18"}      # C15: "they return NULL" / "every other allocation succeeds" - a crash on a designated or failing allocation is neither

COMPONENTS = {
    "runsim": {
        "real": ["all of src/CppUTest (CommandLineTestRunner, CommandLineArguments, TestRegistry, Utest/UtestShell, TestResult, TestOutput, JUnitTestOutput, TeamCityTestOutput, TestPlugin/SetPointerPlugin, MemoryLeakWarningPlugin, MemoryLeakDetector, SimpleString, TestFailure)",
                 "src/Platforms/Gcc/UtestPlatform.cpp setjmp/longjmp stack (called through counting wrappers), separate-process runner and its fork/waitpid functions (real code over wrapped libc fork/waitpid/kill)", "glibc setjmp/longjmp, C++ exception unwinding", "glibc malloc as the platform heap", "expat as the XML judge"],
        "simulated": ["clock (GetPlatformSpecificTimeInMillis/TimeString -> SimClock)", "console stream and files (PlatformSpecificFPuts/FOpen/FClose/Flush -> in-memory SimIO)",
                      "rand/srand (libc-faithful or adversarial SimRand)", "test programs (scripted SimTest bodies, scripted plugins)",
                      "libc fork/waitpid/kill (link-time wraps: scripted statuses, EINTR runs, fork failure; real children in the plain build)",
                      "the static CommandLineTestRunner::RunAllTests entry point is replaced by its own steps with a per-run leak plugin for the simulated run; it is executed for real in an epilogue of some runs"],
    },
}

COMPONENTS["heapsim"] = {
    "real": ["src/CppUTest/MemoryLeakDetector.cpp (table, lists, report buffer)", "MemoryLeakWarningPlugin.cpp global routing (operator new/delete forms, cpputest_malloc/realloc/free wrappers) with the simulator's detector installed through setGlobalDetector()",
             "TestMemoryAllocator.cpp (default allocators, FailableMemoryAllocator, NullUnknownAllocator)", "TestHarness_c.cpp (cpputest_malloc/calloc/strdup/strndup/realloc/free, out-of-memory countdown)", "SimpleStringBuffer"],
    "simulated": ["platform heap (PlatformSpecificMalloc/Realloc/Free -> SimHeap: fixed-address bump arena, address steering mod 73, dirty memory, n-th call returns NULL, size limit, ASan-poisoned gaps and freed blocks)",
                  "allocators with arbitrary type names and injected NULL results (SimAllocator)", "MemoryLeakFailure (recording reporter that returns)", "PlatformSpecificVSNprintf (bounds-checking pass-through for the 4096-byte buffers)", "PlatformSpecificMemCpy (NULL-checking pass-through)"],
}
COMPONENTS["cachesim"] = {
    "real": ["src/CppUTest/SimpleStringInternalCache.cpp (cache, size classes, used/free lists, clear operations, one-time warning)", "UtestShell::print path of the warning"],
    "simulated": ["underlying TestMemoryAllocator (recording allocator over real malloc so that ASan sees misuse; dirty memory; exact outstanding set)", "console stream"],
}
COMPONENTS["mocksim"] = {
    "real": ["src/CppUTestExt/MockSupport.cpp, MockActualCall.cpp, MockExpectedCall.cpp, MockExpectedCallsList.cpp, MockNamedValue.cpp, MockFailure.cpp, MockSupportPlugin.cpp, MockSupport_c.cpp", "TestRegistry/UtestShell/TestResult running each scenario as a real test with the real default and C failure reporters (exception and longjmp termination)"],
    "simulated": ["caller tasks and their interleaving (seeded cooperative scheduler over per-task call lists)", "test programs (scenario interpreter over the C++ and the C front end)", "console stream"],
}
COMPONENTS["thrsim"] = {
    "real": ["src/CppUTest/MemoryLeakWarningPlugin.cpp thread-safe wrappers and switching, MemoryLeakDetector.cpp, TestMemoryAllocator.cpp, SimpleMutex.cpp (all four instrumented: every load/store is a yield point and feeds the race detector)", "TestHarness_c.cpp malloc wrappers (not instrumented)", "real pthreads (2-17 per run), glibc setjmp/longjmp for the misuse path, a real test through TestRegistry for the misuse-while-locked scenario"],
    "simulated": ["thread scheduling (baton passing: one runnable thread at a time, seeded preemption at yield points, recorded schedule)", "the pthread mutex primitives under the library's own PThreadMutexCreate/Lock/Unlock/Destroy (link-time wraps of pthread_mutex_init/lock/trylock/unlock/destroy -> owner-tracking SimMutex with deadlock and self-deadlock detection)",
                  "the platform heap (fixed-address bump arena, zeroed per run)", "the TSan runtime (own __tsan_* callbacks: vector-clock happens-before detector whose only edges are the simulated mutex, thread start/join and block hand-off)", "MemoryLeakFailure (recording reporter) in the threads profile; the framework's own longjmp reporter in the locked_misuse profile"],
}
RULES = {
    "thrsim": "one evaluation = one run of 2-17 real threads, each executing a generated script of 5-200 allocation operations (new, new[], nothrow forms, malloc, realloc incl. realloc(NULL), free, hand-off of blocks to other threads) with the thread-safe overloads on, "
              "under a seeded scheduler that may preempt at every instrumented memory access, lock operation and heap call (probability 1/2..1/64 per point, optionally always around lock edges); locked_misuse: a real test on thread 0 misuses memory while workers allocate. "
              "Non-trivial = more than two context switches; distinct = distinct hashes of the interleaving (sequence of operations and context switches), i.e. distinct schedules.",
    "mocksim": "one evaluation = one generated registry of 1-3 mocked scenarios (up to 12 expectations over 8 functions with 0-3 typed parameters, objects, output parameters, return values unique per class, expectNCalls 0-4, strict order, ignoreOtherCalls, "
               "ignoreOtherParameters, scopes) whose matching calls are spread over 1-4 caller tasks, with at most one injected deviation, executed under 2-8 schedules (cfront: 2 schedules through both front ends). "
               "Non-trivial = a deviation was injected; distinct = distinct hashes of (failure counts, first lines, per-call return/output logs).",
    "cachesim": "one evaluation = one generated history of 1-160 alloc(size)/dealloc(ptr,size')/foreign or double release/clearCache/clearAll/hasFree/destroy-and-recreate operations over sizes 0..1024 (dense at every class boundary) "
                "against a fresh cache over the recording allocator; a shadow map is compared after every operation. Non-trivial = at least one buffer was handed out; distinct = distinct hashes of (operations, outstanding-allocation counts, verdicts).",
    "heapsim": "one evaluation = one generated history of 1-400 operations (alloc/free/realloc through the local API with inline or separate bookkeeping and through the global operator new / cpputest_malloc routing, period/stage/clear/report "
               "operations, byte flips, foreign frees, wrapper allocators, failure designations, out-of-memory countdowns) against a fresh detector over the simulated heap; oracles run after every operation. "
               "Non-trivial = at least one tracked allocation succeeded; distinct = distinct hashes of (operations, allocation numbers, periods, report texts, verdicts).",
    "runsim": "one evaluation = one whole simulated command-line run (generated registry of scripted tests x argv x plugins x fault plan, all derived from one seed). "
              "Non-trivial = at least one failure was recorded or the runner returned non-zero; distinct = distinct 64-bit hashes of the address-free event log "
              "(op trace, output callbacks, failure records, console bytes, files, return value) among the non-trivial runs.",
}

ASSUMPTIONS = {
    "thrsim": ["all synchronisation of the detector goes through the PlatformSpecificMutex* seam", "the detector's state = everything the four instrumented translation units touch; the C harness's malloc_count statistic (TestHarness_c.cpp) is not detector state and not instrumented",
               "misuse is injected on the test-running thread only (a longjmp from another thread into the runner's stack is undefined in any implementation)", "preemption granularity is the instrumented loads/stores, not machine instructions of glibc", "seeded sampling of schedules: evidence, not proof"],
    "mocksim": ["scenarios outside the property's unambiguity precondition (object/no-object mix, ignoreOtherParameters next to other classes, expectNoCall next to expectations) are skipped by the oracle",
                "where two diagnoses are defensible for a surplus call the oracle accepts a set; verdict, exactly-one-failure and order independence are never relaxed",
                "C19 compares the C execution with the C++ execution of the same scenario and schedule (the C++ interface is the reference); onObject does not exist in the C interface and is not generated there", "seeded sampling: evidence, not proof"],
    "cachesim": ["a release names a size of the buffer's own class (the property's precondition); foreign pointers are readable C strings (the warning prints them)",
                 "double releases are generated only for cached classes (the memory is still owned by the cache); allocator failures are not injected (the cache has no failure path)", "seeded sampling: evidence, not proof"],
    "heapsim": ["failures of the separate bookkeeping-node allocation and the combination nothrow-new x platform malloc returning NULL are outside the fault model (DESIGN 9)",
                "the message buffer is cleared (startChecking + period restore) before operations whose report category is compared, as at the start of every test; the diagnostics profile does not clear",
                "period semantics follow the header: a query for 'enabled' also sees blocks stamped 'checking'", "seeded sampling: a clean batch is evidence, not proof"],
    "runsim": ["oracles are evaluated over the run's recorded history against a reference model written from the property text",
               "seeded sampling: a clean batch is evidence, not proof",
               "exceptions thrown from test constructors/destructors, -f crash mode and TEST_EXIT are not generated",
               "the worker-lifetime leak plugin replaces the static RunAllTests wrapper's plugin (firstPlugin_ dangles after the wrapper returns)"],
}

# ---------------------------------------------------------------------------------------------------------------
def log(*a):
    print(*a, flush=True)

# sanitizer and locale settings of the caller must not change how an engine behaves or how its exit code reads
SAN_ENV = {"ASAN_OPTIONS": "exitcode=77:detect_leaks=0:abort_on_error=0:allocator_may_return_null=1:detect_stack_use_after_return=0:handle_abort=0",
           "UBSAN_OPTIONS": "halt_on_error=1:exitcode=77:print_stacktrace=1", "LC_ALL": "C", "MALLOC_PERTURB_": "", "MALLOC_CHECK_": ""}
def engine_env():
    e = dict(os.environ); e.update(SAN_ENV)
    for k in ("LD_PRELOAD", "TSAN_OPTIONS", "LSAN_OPTIONS", "MSAN_OPTIONS"):
        e.pop(k, None)
    return e

def sh(cmd, **kw):
    kw.setdefault("env", engine_env())
    return subprocess.run(cmd, **kw)

def repo_fingerprint():
    """content hashes of everything the engines compile from /repo"""
    h = {}
    for base in ("src", "include"):
        for dp, dn, fn in os.walk(os.path.join(REPO, base)):
            for f in fn:
                if f.endswith((".cpp", ".h", ".c")):
                    p = os.path.join(dp, f)
                    try:
                        h[os.path.relpath(p, REPO)] = hashlib.sha1(open(p, "rb").read()).hexdigest()
                    except OSError:
                        pass
    return h

def sync_build(variants):
    """make's mtime tracking plus a content-hash check, so that a tree edited with preserved or older mtimes is still rebuilt"""
    fp = repo_fingerprint()
    for v in variants:
        stamp = os.path.join(BUILD, v, "srchash.json")
        old = {}
        try:
            old = json.load(open(stamp))
        except Exception:
            pass
        if old != fp:
            changed = [k for k in set(old) | set(fp) if old.get(k) != fp.get(k)]
            hdr = any(k.endswith(".h") for k in changed)
            objdir = os.path.join(BUILD, v, "repo")
            if hdr:
                shutil.rmtree(os.path.join(BUILD, v), ignore_errors=True)
            else:
                for k in changed:
                    o = os.path.join(objdir, os.path.relpath(k, "src"))[:-4] + ".o"
                    if os.path.exists(o):
                        os.remove(o)
            os.makedirs(os.path.join(BUILD, v), exist_ok=True)
            json.dump(fp, open(stamp, "w"))

def build(targets):
    variants = sorted({t.split("/")[1] for t in targets})
    sync_build(variants)
    t0 = time.time()
    targets = [os.path.join(BUILD, t[len("build/"):]) if t.startswith("build/") else t for t in targets]
    p = sh(["make", "-C", ROOT, "-j%d" % NPROC, "REPO=" + REPO, "B=" + BUILD] + targets, stdout=subprocess.PIPE, stderr=subprocess.STDOUT, text=True)
    if p.returncode != 0:
        log(p.stdout[-6000:])
        log("BUILD-FAILED: the engines do not compile against %s" % REPO)
        return False
    log("build ok (%.1fs): %s" % (time.time() - t0, " ".join(targets)))
    return True

def engine_path(engine, variant):
    return os.path.join(BUILD, variant, engine)

# ---------------------------------------------------------------------------------------------------------------
def load_known():
    try:
        return json.load(open(os.path.join(ROOT, "known_findings.json")))["findings"]
    except Exception:
        return []

def known_match(viol, prop):
    for k in load_known():
        if k.get("property") != prop or k.get("status") != "known":
            continue
        m = k.get("match", {})
        if m.get("oracle") and m["oracle"] != viol.get("oracle"):
            continue
        sig = viol.get("sig", {}) or {}
        if all(sig.get(a) == b for a, b in m.get("sig", {}).items()):
            if all(x in viol.get("detail", "") for x in m.get("detail_contains", [])):
                return k
    return None

def run_batch(prop, engine, variant, profile, runs, seed, outdir, time_cap, all_hashes=False, workers=None):
    """runs one batch over `workers` engine processes; returns dict with stats, violations, crashes"""
    exe = engine_path(engine, variant)
    shutil.rmtree(outdir, ignore_errors=True)
    os.makedirs(outdir, exist_ok=True)
    W = workers or NPROC
    W = max(1, min(W, runs))
    per = (runs + W - 1) // W
    procs = {}
    res = {"viol": [], "crashes": [], "nondet": [], "stats": [], "runs_planned": runs}

    def start(w, start_index, count):
        cmd = [exe, "batch", "--profile", profile, "--seed", str(seed), "--start", str(start_index), "--count", str(count),
               "--stride", str(W), "--worker", str(w), "--out", outdir, "--max-shrink", "3"]
        if prop:
            cmd += ["--prop", prop]
        if time_cap:
            cmd += ["--time-cap", str(time_cap)]
        if all_hashes:
            cmd += ["--all-hashes"]
        lf = open(os.path.join(outdir, "w%d.log" % w), "ab")
        p = subprocess.Popen(cmd, stdout=lf, stderr=subprocess.STDOUT, cwd=ROOT, env=engine_env())
        procs[w] = (p, start_index, count, lf, time.time())

    for w in range(W):
        start(w, w, per)
    restarts = 0
    last_prog = {}
    while procs:
        time.sleep(0.05)
        for w in list(procs):
            p, s0, cnt, lf, t0 = procs[w]
            rc = p.poll()
            hung = False
            if rc is None:
                # hang watchdog: progress index unchanged for 60 s
                try:
                    cur = array.array("q"); cur.frombytes(open(os.path.join(outdir, "w%d.progress" % w), "rb").read(8)); cur = cur[0]
                except Exception:
                    cur = None
                lp = last_prog.get(w)
                if lp is None or lp[0] != cur:
                    last_prog[w] = (cur, time.time())
                elif time.time() - lp[1] > 90:
                    p.kill(); p.wait(); rc = -9; hung = True
                else:
                    continue
                if rc is None:
                    continue
            lf.close()
            del procs[w]
            if rc == 0:
                continue
            # the worker died inside a run: which one?
            try:
                cur = array.array("q"); cur.frombytes(open(os.path.join(outdir, "w%d.progress" % w), "rb").read(8)); idx = cur[0]
            except Exception:
                idx = -1
            res["crashes"].append({"worker": w, "index": idx, "rc": rc, "hung": hung})
            restarts += 1
            if idx >= 0 and restarts < 40:
                done = (idx - s0) // W + 1
                if cnt - done > 0:
                    # keep the stats file of the dead worker impossible to confuse: new worker id
                    start(w + 100 * restarts, idx + W, cnt - done)
    # collect
    hashes = set()
    for f in glob.glob(os.path.join(outdir, "w*.hashes")):
        a = array.array("Q")
        data = open(f, "rb").read()
        a.frombytes(data[: len(data) // 8 * 8])
        hashes.update(a)
    res["distinct"] = len(hashes)
    for f in sorted(glob.glob(os.path.join(outdir, "w*.stats.json"))):
        try:
            res["stats"].append(json.load(open(f)))
        except Exception:
            pass
    for f in sorted(glob.glob(os.path.join(outdir, "w*.log"))):
        for line in open(f, errors="replace"):
            if line.startswith("VIOL "):
                try:
                    res["viol"].append(json.loads(line[5:]))
                except Exception:
                    pass
            elif line.startswith("NONDET "):
                res["nondet"].append(line.strip())
    return res

def classify_crash(engine, variant, profile, seed, index, outdir, tag):
    """reproduce a worker death in a fresh process and shrink it; returns (class, minimised file) or (None, reason)"""
    exe = engine_path(engine, variant)
    raw = os.path.join(outdir, "crash_%s_i%d_raw.json" % (tag, index))
    p = sh([exe, "dump", "--profile", profile, "--seed", str(seed), "--index", str(index), "--file", raw], stdout=subprocess.PIPE, stderr=subprocess.STDOUT, text=True)
    if p.returncode != 0 or not os.path.exists(raw):
        return None, "cannot dump run description"
    mn = os.path.join(outdir, "crash_%s_i%d_min.json" % (tag, index))
    p = sh([exe, "shrink", "--file", raw, "--out", mn], stdout=subprocess.PIPE, stderr=subprocess.STDOUT, text=True)
    for line in p.stdout.splitlines():
        if line.startswith("SHRUNK "):
            cls = line.split("target=")[-1].strip()
            return cls, mn
    return None, "crash did not reproduce in a fresh process: " + p.stdout[-300:]

def fresh_replay(path, prop):
    """gate (b): replay a file in a fresh process. Returns (failed?, classes, crashclass, output)"""
    d = json.load(open(path))
    exe = engine_path(d["engine"], d.get("variant") or "asan")
    cmd = [exe, "replay", "--file", path]
    if prop:
        cmd += ["--prop", prop]
    try:
        p = sh(cmd, stdout=subprocess.PIPE, stderr=subprocess.PIPE, text=True, errors="replace", timeout=120)
    except subprocess.TimeoutExpired:
        return True, [], "crash|hang", ""
    classes = []
    for line in p.stdout.splitlines():
        if line.startswith("VIOL "):
            try:
                v = json.loads(line[5:])
                classes.append(v)
            except Exception:
                pass
    crash = None
    if p.returncode < 0:
        crash = "crash|signal%d" % (-p.returncode)
    elif p.returncode == 77:
        crash = "crash|sanitizer"
    elif p.returncode not in (0, 1):
        crash = "crash|exit%d" % p.returncode
    return (p.returncode != 0), classes, crash, p.stdout[-3000:] + p.stderr[-3000:]

def crash_in_library(out):
    """True when the innermost frame of a sanitizer report that is not sanitizer runtime belongs to the library under test (not to the harness)"""
    import re
    for line in out.splitlines():
        m = re.match(r"^\s*#\d+ 0x[0-9a-f]+ in (.+?) (/\S+?):(\d+)", line)
        if not m:
            continue
        path = m.group(2)
        if "libsanitizer" in path or "/asan/" in path or "sanitizer_common" in path:
            continue
        real = os.path.realpath(path)
        return real.startswith(os.path.realpath(REPO) + os.sep) or "/repo/src/" in path or "/repo/include/" in path
    return False

def viol_class(v):
    return "%s|%s|%s" % (v.get("prop"), v.get("oracle"), json.dumps(v.get("sig", {}), separators=(",", ":")))

def check(prop, tier):
    if prop not in PLANS:
        log("property %s is not claimed (see MANIFEST.not_applicable)" % prop)
        return 2
    seed = int(os.environ.get("VERIF_SEED", "1"))
    tier = os.environ.get("VERIF_TIER", tier)
    plan = PLANS[prop]
    t_start = time.time()
    targets = sorted({"build/%s/%s" % (b[1], b[0]) for b in plan})
    if not build(targets):
        return 2
    evid = {"property_id": prop, "tier": tier, "seed": seed, "level": "exploration", "coverage": {}, "assumptions": [], "wall_s": 0.0, "violations": 0}
    total_runs = 0; distinct = 0; sim_ms = 0; counters = {}; samples = []; reruns = 0; mism = 0; batches = []
    violations = []; known_seen = {}; harness_problems = []
    thorough_cap = float(os.environ.get("VERIF_THOROUGH_CAP_S", "900"))
    replay_dir = os.path.join(OUT, "replays"); os.makedirs(replay_dir, exist_ok=True)
    for bi, batch in enumerate(plan):
        engine, variant, profile, qn, tn = batch[:5]
        implied = tuple(batch[5]) if len(batch) > 5 else ()
        propArg = ",".join((prop,) + implied)
        runs = qn if tier == "quick" else tn
        runs = max(500, int(runs * float(os.environ.get("VERIF_SCALE", "1"))))     # VERIF_SCALE < 1: a reduced budget, used by the seeded/benign self-test rounds only
        cap = 0 if tier == "quick" else thorough_cap / max(1, len(plan))
        outdir = os.path.join(OUT, "work", prop, tier, "%s_%s_%s" % (engine, variant, profile))
        t0 = time.time()
        res = run_batch(propArg, engine, variant, profile, runs, seed, outdir, cap)
        wall = time.time() - t0
        r = sum(s["runs"] for s in res["stats"]); total_runs += r
        distinct += res["distinct"]
        sim_ms += sum(s.get("sim_ms", 0) for s in res["stats"])
        reruns += sum(s.get("reruns", 0) for s in res["stats"]); mism += sum(s.get("mismatches", 0) for s in res["stats"])
        for s in res["stats"]:
            for k, v in s.get("counters", {}).items():
                counters[k] = counters.get(k, 0) + v
        if res["stats"] and len(samples) < 4:
            for smp in res["stats"][0].get("samples", [])[:2]:
                samples.append({"engine": engine, "variant": variant, "profile": profile, "index": smp.get("index"), "hash": smp.get("hash"), "desc": smp.get("desc")})
        other = {}
        for s in res["stats"]:
            for k, v in s.get("classes", {}).items():
                if k.startswith("other:"):
                    other[k[6:]] = other.get(k[6:], 0) + v
        batches.append({"engine": engine, "variant": variant, "profile": profile, "runs": r, "planned": runs, "wall_s": round(wall, 2), "distinct_nontrivial": res["distinct"],
                        "runs_per_hour": int(r / wall * 3600) if wall > 0 else 0, "other_property_notes": other})
        log("batch %s/%s/%s: %d runs, %d distinct non-trivial, %.1fs, %d violation candidates, %d worker deaths" % (engine, variant, profile, r, res["distinct"], wall, len(res["viol"]), len(res["crashes"])))
        if res["nondet"]:
            harness_problems.append("same-seed re-run gave a different hash: " + res["nondet"][0])
        # ---- violation candidates reported by workers (already minimised in forked children)
        seen_cls = set()
        for v in res["viol"]:
            cls = viol_class(v)
            k = known_match(v, prop)
            if k:
                known_seen[k["id"]] = k
                continue
            if cls in seen_cls:
                continue
            seen_cls.add(cls)
            if not v.get("fork_repro", True):
                harness_problems.append("violation did not reproduce in a forked child: " + cls)
                continue
            dst = os.path.join(replay_dir, "%s_%s_%s_%s_s%d_i%d_%s.json" % (prop, engine, variant, profile, seed, v.get("index", 0), hashlib.sha1(cls.encode()).hexdigest()[:6]))
            d = json.load(open(v["replay"]))
            d["property"] = prop; d["accept_properties"] = propArg; d["class"] = cls; d["oracle"] = v.get("oracle"); d["detail"] = v.get("detail"); d["found_by"] = {"seed": seed, "index": v.get("index"), "tier": tier}
            json.dump(d, open(dst, "w"))
            failed, classes, crash, out = fresh_replay(dst, propArg)
            if not failed or not any(viol_class(c) == cls for c in classes):
                harness_problems.append("minimised replay %s does not fail the same way in a fresh process" % dst)
                continue
            violations.append({"class": cls, "replay": dst, "detail": v.get("detail"), "ops_before": v.get("ops_before"), "ops_after": v.get("ops_after")})
        # ---- worker deaths
        for c in res["crashes"][:3]:
            if c["index"] < 0:
                # The worker died before its first run, i.e. in the engine's warm-up (the same code path as a run: a fresh detector, plugin, registry built
                # and destroyed). If a fresh process given the first run of the batch dies the same way every time, the library cannot get through the
                # workload of a property whose statement excludes a crash: reported as a crash class of that property, with the run description as replay.
                if any(v["class"].startswith("crash|") and v["class"].endswith("|startup") for v in violations):
                    continue      # the same death, already reported
                if prop in CRASH_CLAUSE:
                    exe = engine_path(engine, variant)
                    raw = os.path.join(outdir, "crash_startup_i0.json")
                    rcs = []
                    sh([exe, "dump", "--profile", profile, "--seed", str(seed), "--index", "0", "--file", raw], stdout=subprocess.PIPE, stderr=subprocess.STDOUT, text=True)
                    for _ in range(2):
                        try:
                            pp = sh([exe, "replay", "--file", raw, "--prop", propArg], stdout=subprocess.PIPE, stderr=subprocess.PIPE, text=True, errors="replace", timeout=120)
                            rcs.append(pp.returncode)
                        except subprocess.TimeoutExpired:
                            rcs.append("hang")
                    if rcs == ["hang", "hang"] and c["rc"] == -9 and prop in HANG_CLAUSE and os.path.exists(raw):
                        # every worker had to be killed in its warm-up and a fresh process given run 0 does not come back either, twice: the library hangs
                        # on the first workload of a property whose statement excludes that (a lock left held, a wait that never ends)
                        cls = "crash|hang|startup"
                        dst = os.path.join(replay_dir, "%s_%s_%s_%s_s%d_startup_hang.json" % (prop, engine, variant, profile, seed))
                        d = json.load(open(raw)); d["property"] = prop; d["class"] = cls; d["oracle"] = "crash"; d["detail"] = cls + ": every worker hangs while the engine runs its first workload, before run 0"
                        json.dump(d, open(dst, "w"))
                        failed, classes, crash, out = fresh_replay(dst, prop)
                        if crash == "crash|hang":
                            violations.append({"class": cls, "replay": dst, "detail": d["detail"]}); continue
                    if len(set(rcs)) == 1 and rcs[0] == c["rc"] and (rcs[0] == 77 or (isinstance(rcs[0], int) and rcs[0] < 0)) and os.path.exists(raw):
                        cls = ("crash|sanitizer" if rcs[0] == 77 else "crash|signal%d" % (-rcs[0])) + "|startup"
                        dst = os.path.join(replay_dir, "%s_%s_%s_%s_s%d_startup_crash.json" % (prop, engine, variant, profile, seed))
                        d = json.load(open(raw)); d["property"] = prop; d["class"] = cls; d["oracle"] = "crash"; d["detail"] = cls + ": every worker dies while the engine builds and destroys its first detector/registry, before run 0"
                        json.dump(d, open(dst, "w"))
                        failed, classes, crash, out = fresh_replay(dst, prop)
                        if crash == cls.replace("|startup", ""):
                            violations.append({"class": cls, "replay": dst, "detail": d["detail"]}); continue
                harness_problems.append("worker died outside any run (rc %s)" % c["rc"]); continue
            cls, mn = classify_crash(engine, variant, profile, seed, c["index"], outdir, "w%d" % c["worker"])
            if cls is None:
                harness_problems.append("worker death at run %d: %s" % (c["index"], mn)); continue
            if not cls.startswith("crash|"):
                # the worker died, but the same run, reproduced and minimised in a fresh process, fails an ordinary oracle first
                accepted = propArg.split(",")
                if cls.split("|")[0] not in accepted:
                    harness_problems.append("worker death at run %d reproduces as %s, which belongs to another property; replay %s" % (c["index"], cls, mn)); continue
                dst = os.path.join(replay_dir, "%s_%s_%s_%s_s%d_i%d_%s.json" % (prop, engine, variant, profile, seed, c["index"], hashlib.sha1(cls.encode()).hexdigest()[:6]))
                d = json.load(open(mn)); d["property"] = prop; d["accept_properties"] = propArg; d["class"] = cls; d["oracle"] = cls.split("|")[1] if "|" in cls else ""; d["detail"] = cls
                d["found_by"] = {"seed": seed, "index": c["index"], "tier": tier, "via": "worker death"}
                json.dump(d, open(dst, "w"))
                failed, classes, crash, out = fresh_replay(dst, propArg)
                if not failed or not any(viol_class(x) == cls for x in classes):
                    harness_problems.append("minimised replay %s does not fail the same way in a fresh process" % dst); continue
                if not any(v["class"] == cls for v in violations):
                    violations.append({"class": cls, "replay": dst, "detail": cls})
                continue
            if prop not in CRASH_CLAUSE:
                # no safety clause in the statement: attributed only when the sanitizer's innermost frame lies in the library itself (while running
                # this property's workload the library did not deliver what the property describes); a fault inside the harness stays a harness problem
                failed0, classes0, crash0, out0 = fresh_replay(mn, prop)
                if not (crash0 == cls and crash_in_library(out0)):
                    harness_problems.append("crash class %s at run %d is not attributable to %s (no safety clause, innermost frame not in the library); replay %s" % (cls, c["index"], prop, mn)); continue
                cls = cls + "|in_library"
            v = {"prop": prop, "oracle": "crash", "sig": {"class": cls}, "detail": cls}
            k = known_match(v, prop)
            if k:
                known_seen[k["id"]] = k; continue
            dst = os.path.join(replay_dir, "%s_%s_%s_%s_s%d_i%d_crash.json" % (prop, engine, variant, profile, seed, c["index"]))
            d = json.load(open(mn)); d["property"] = prop; d["class"] = cls; d["oracle"] = "crash"; d["detail"] = cls
            json.dump(d, open(dst, "w"))
            failed, classes, crash, out = fresh_replay(dst, prop)
            if crash != cls.replace("|in_library", ""):
                harness_problems.append("crash replay %s gave %s instead of %s" % (dst, crash, cls)); continue
            violations.append({"class": cls, "replay": dst, "detail": out[-400:]})
        if violations and tier == "quick":
            break
    wall = time.time() - t_start
    if mism:
        harness_problems.append("%d of %d same-seed re-runs gave a different hash" % (mism, reruns))
    engine0 = plan[0][0]
    zero_probes = sorted(k for k, v in counters.items() if v == 0)
    evid["coverage"] = {
        "evaluations": total_runs, "distinct_nontrivial": distinct, "rule": RULES.get(engine0, ""), "samples": samples or [{"note": "no run completed"}],
        "batches": batches, "runs_per_hour": int(total_runs / wall * 3600) if wall > 0 else 0, "seeds": {"batch_seed": seed, "run_indices": [0, max(b["planned"] for b in batches) - 1] if batches else []},
        "sim_time_ms": sim_ms, "faults_fired": {k[6:]: v for k, v in sorted(counters.items()) if k.startswith("fault.")},
        "probes": {k[6:]: v for k, v in sorted(counters.items()) if k.startswith("probe.")}, "blind_spots": zero_probes,
        "components": COMPONENTS.get(engine0, {}), "determinism": {"seeds_rerun": reruns, "mismatches": mism},
        "violations": violations, "known_findings_seen": sorted(known_seen), "harness_problems": harness_problems,
    }
    evid["assumptions"] = ASSUMPTIONS.get(engine0, [])
    evid["wall_s"] = round(wall, 2)
    evid["violations"] = len(violations)
    os.makedirs(os.path.join(OUT, "evidence"), exist_ok=True)
    json.dump(evid, open(os.path.join(OUT, "evidence", prop + ".json"), "w"), indent=1)
    for k in known_seen.values():
        log("KNOWN-FINDING: property=%s %s" % (prop, k.get("what", k["id"])))
    if harness_problems:
        for h in harness_problems:
            log("HARNESS-PROBLEM: " + h)
        if not violations:
            return 2
    for v in violations:
        log("violation class %s: %s" % (v["class"], (v.get("detail") or "")[:300]))
        log("VIOLATION property=%s replay=%s" % (prop, v["replay"]))
    if violations:
        return 1
    log("OK property=%s tier=%s runs=%d distinct_nontrivial=%d wall=%.1fs" % (prop, tier, total_runs, distinct, wall))
    return 0

def replay(path):
    d = json.load(open(path))
    prop = d.get("property", "")
    accept = d.get("accept_properties", prop)
    if not build(["build/%s/%s" % (d.get("variant") or "asan", d["engine"])]):
        return 2
    failed, classes, crash, out = fresh_replay(path, accept)
    log(out)
    want = d.get("class")
    if crash:
        log("VIOLATION property=%s replay=%s" % (prop, path)); return 1
    hit = [c for c in classes if (not prop or c.get("prop") in accept.split(","))]
    if hit:
        same = any(viol_class(c) == want for c in hit) if want else True
        log("replayed: %s%s" % (viol_class(hit[0]), "" if same else " (class differs from the recorded one: %s)" % want))
        log("VIOLATION property=%s replay=%s" % (prop, path)); return 1
    log("replay passed: no violation for %s" % (prop or "any property"))
    return 0

def determinism(engine, variant, profile, n):
    """the same seeds at 4 and 16 workers, twice each, all per-run hashes compared"""
    if not build(["build/%s/%s" % (variant, engine)]):
        return 2
    tables = []
    for W in (4, 16, 7):
        outdir = os.path.join(OUT, "work", "determinism", "%s_%s_%s_w%d" % (engine, variant, profile, W))
        run_batch("", engine, variant, profile, n, int(os.environ.get("VERIF_SEED", "1")), outdir, 0, all_hashes=True, workers=W)
        t = {}
        for f in glob.glob(os.path.join(outdir, "w*.allhashes")):
            a = array.array("Q"); data = open(f, "rb").read(); a.frombytes(data[: len(data) // 16 * 16])
            for i in range(0, len(a), 2):
                t[a[i]] = a[i + 1]
        tables.append(t)
    common = set(tables[0]); [common.intersection_update(t) for t in tables[1:]]
    bad = [i for i in common if any(tb[i] != tables[0][i] for tb in tables[1:])]
    miss = [len(t) for t in tables]
    log("determinism %s/%s/%s: %d seeds x 3 worker layouts (%s runs each), %d mismatching" % (engine, variant, profile, n, miss, len(bad)))
    if bad:
        log("first mismatching run indices: %s" % sorted(bad)[:10])
    return 2 if bad or len(common) < n else 0

def determinism_all(n):
    """every engine profile used by some check"""
    seen = set(); rc = 0
    for plan in PLANS.values():
        for b in plan:
            e, v, pr = b[:3]
            if (e, v, pr) in seen:
                continue
            seen.add((e, v, pr))
            rc = max(rc, determinism(e, v, pr, n))
    return rc

def main():
    a = sys.argv[1:]
    if not a:
        print(__doc__); return 2
    if a[0] == "build":
        targets = sorted({"build/%s/%s" % (b[1], b[0]) for plan in PLANS.values() for b in plan})
        return 0 if build(targets) else 2
    if a[0] == "check":
        tier = "quick"
        if "--tier" in a:
            tier = a[a.index("--tier") + 1]
        return check(a[1], tier)
    if a[0] == "replay":
        return replay(a[1])
    if a[0] == "determinism-all":
        return determinism_all(int(a[1]) if len(a) > 1 else 1000)
    if a[0] == "determinism":
        return determinism(a[1], a[2], a[3], int(a[4]) if len(a) > 4 else 2000)
    print(__doc__); return 2

if __name__ == "__main__":
    # the outcome must not depend on the signal dispositions the caller hands down (nohup, background jobs)
    for _s in (signal.SIGCHLD, signal.SIGHUP, signal.SIGALRM):
        try:
            signal.signal(_s, signal.SIG_DFL)
        except Exception:
            pass
    sys.exit(main())
